#!/usr/bin/env python3
"""CLI: python3-vt check.py <Cxx> --tier quick|thorough   |   --replay <file>

exit 0: every obligation generated from /repo's current source was discharged
exit 1: VIOLATION line(s) printed (refuted or not-discharged obligation)
exit 3: checker error (never a verdict)
"""
import argparse
import json
import os
import subprocess
import sys

ROOT = os.path.dirname(os.path.abspath(__file__))
sys.path.insert(0, ROOT)


def main():
    ap = argparse.ArgumentParser()
    ap.add_argument('prop', nargs='?')
    ap.add_argument('--tier', default=os.environ.get('VERIF_TIER', 'quick'))
    ap.add_argument('--replay')
    a = ap.parse_args()
    if a.replay:
        with open(a.replay) as f:
            rep = json.load(f)
        print('obligation:', rep.get('obligation'))
        print('verdict   :', rep.get('verdict'))
        r = rep.get('replay') or {}
        if r.get('found') and r.get('cmd'):
            print('re-running:', ' '.join(r['cmd']))
            p = subprocess.run(r['cmd'], cwd=ROOT)
            # replay scripts exit 1 when the failing behaviour reproduces
            print('reproduced' if p.returncode == 1 else 'did not reproduce')
            return 1 if p.returncode == 1 else 0
        print(json.dumps(rep.get('solver'), indent=1)[:4000])
        print('no concrete failing input was found for this obligation')
        return 0
    if not a.prop:
        ap.error('property id required')
    tier = a.tier if a.tier in ('quick', 'thorough') else 'quick'
    seed = int(os.environ.get('VERIF_SEED', '0') or 0)
    from pyvc.driver import run_property
    return run_property(a.prop, tier, seed)


if __name__ == '__main__':
    sys.exit(main())
