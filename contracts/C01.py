"""C01 - every stored sample belongs to exactly one shell: its own."""
import z3

from pyvc.core import State, Sym, Arr, Ref, fresh, uid, I, B
from pyvc import arrays as A
from pyvc.npmodel import MaybeNone
from pyvc.symexec import Executor, View
from pyvc.verify import verify_function
from .common import new_registry, fn_entry, lemma
from . import sampler_model as M
from . import sampler_contracts as SC
from .sampler_model import SQ

OBLIGATION_FLOOR = 2000
UNITS = ['shell_association', 'sample_shell', 'update_shell_info', 'add_bound',
         'add_samples', 'setter', 'run[verbose=False,file=False]',
         'run[verbose=False,file=True]', 'run[verbose=True,file=False]',
         'run[verbose=True,file=True]']
# the concrete bound classes implement the abstract Bound API the Sampler
# proofs are written against (units shared with C07)
SUPPORT_UNITS = ['UnitCube', 'Union', 'NeuralBound', 'NautilusBound',
                 'Union.restructure', 'NautilusBound.compute',
                 'NautilusBound.worker']
UNITS = UNITS + ['support:' + u for u in SUPPORT_UNITS]
Z3_TIMEOUT_MS = 60000


_EX = {}


def _branch_cov():
    return _EX['ex'].branch_cov if 'ex' in _EX else []


def _branch_all():
    return _EX['ex'].branch_all if 'ex' in _EX else []


BRANCH_COVERED_FUNCTIONS = tuple(SQ + f for f in (
    'shell_association', 'sample_shell', 'update_shell_info', 'add_bound',
    'add_samples', 'discard_exploration.setter', 'run'))
# branches that are dead *because of* a contract (listed, so that any other
# branch the executor never takes is reported as a vacuity error)
DEAD_BRANCHES = (
    ('discard_exploration.setter', 'not isinstance(discard_exploration, bool)',
     True),        # precondition: the argument is a bool
    ('sample_shell',
     'shell_t is not None and index not in [-1, len(self.bounds) - 1]',
     True),        # excluded by precondition transfer_only_for_last_shell
    ('run', 'self.n_eff < n_eff', False),   # fall-through contradicts the
    # loop guard `not success` (this is C10's one-batch-per-iteration)
)


def build(cx, fe, tier, info, only=None, aspect=None):
    if only is not None and only.startswith('support:'):
        from . import C07
        keep = _EX.get('ex')
        C07.build(cx, fe, tier, info, only=only.split(':', 1)[1])
        if keep is not None:
            _EX['ex'] = keep
        return
    reg = new_registry(fe)
    M.install_bound_api(reg, cx)
    M.install_sampler_hooks(reg)
    M.install_stat_tracking(reg)
    ex = Executor(cx, fe, reg)
    _EX['ex'] = ex

    # ---- shell_association
    c_assoc = SC.shell_association_contract()
    reg.add_contract(c_assoc)

    def env_assoc(ex_, st):
        self_ = M.make_sampler(ex_, st)
        pts = st.alloc(A.fresh_arr(st, 'Pt', 'pts'), 'pts')
        nm = fresh('int', 'n_max')
        return dict(self=self_, points=pts, n_max=nm)
    if only in (None, 'shell_association'):
        verify_function(ex, SQ + 'shell_association', c_assoc, env_assoc)
        fn_entry(fe, info, SQ + 'shell_association')

        def env_assoc_none(ex_, st):
            e = env_assoc(ex_, st)
            e['n_max'] = None
            return e
        verify_function(ex, SQ + 'shell_association', c_assoc, env_assoc_none,
                        tag='[n_max=None]')

    # ---- sample_shell
    G = {}
    c_ss = SC.sample_shell_contract(G)
    reg.add_contract(c_ss)

    def env_ss(ex_, st):
        self_ = M.make_sampler(ex_, st)
        sh = MaybeNone(z3.Bool(uid('shell_t_none')),
                       st.getfield(self_, 'shell_t'))
        env = dict(self=self_, index=fresh('int', 'index'), shell_t=sh)
        G['old'] = st      # replaced by snapshot below
        return env
    if only in (None, 'sample_shell'):
        def env_ss2(ex_, st):
            env = env_ss(ex_, st)
            return env
        # snapshot of the entry state for `old(...)` in the loop invariants:
        # taken lazily by the first invariant evaluation
        class Snap(dict):
            pass
        orig_pre = c_ss.pre

        def pre_and_snapshot(V):
            out = orig_pre(V)
            if G.get('taking', True):
                snap = V.st.copy()
                snap.env = dict(V.st.env)
                G['old'] = snap
            return out
        c_ss.pre = pre_and_snapshot
        verify_function(ex, SQ + 'sample_shell', c_ss, env_ss2)
        c_ss.pre = orig_pre
        fn_entry(fe, info, SQ + 'sample_shell')

    # ---- helper contracts used by the remaining functions
    reg.add_contract(SC.print_status_contract())
    reg.add_contract(SC.getter_real('log_v_live'))
    reg.add_contract(SC.n_eff_contract())
    reg.add_contract(SC.f_live_contract())
    reg.add_contract(SC.write_contract())
    reg.add_contract(SC.write_shell_update_contract())
    reg.add_contract(SC.evaluate_likelihood_contract())
    SC.compute_bound_contracts(reg)

    # ---- update_shell_info
    c_usi = SC.update_shell_info_contract()
    reg.add_contract(c_usi)

    def env_usi(ex_, st):
        return dict(self=M.make_sampler(ex_, st), index=fresh('int', 'index'))
    if only in (None, 'update_shell_info'):
        verify_function(ex, SQ + 'update_shell_info', c_usi, env_usi,
                        ghost_frame=('sstate',))
        fn_entry(fe, info, SQ + 'update_shell_info')

    # ---- add_bound
    G2 = {}
    c_ab = SC.add_bound_contract(G2)
    reg.add_contract(c_ab)

    def env_ab(ex_, st):
        return dict(self=M.make_sampler(ex_, st), verbose=fresh('bool', 'verbose'))
    if only in (None, 'add_bound'):
        verify_function(ex, SQ + 'add_bound', c_ab, env_ab)
        fn_entry(fe, info, SQ + 'add_bound')

    # ---- add_samples
    c_as = SC.add_samples_contract()
    reg.add_contract(c_as)

    def env_as(ex_, st):
        return dict(self=M.make_sampler(ex_, st), shell=fresh('int', 'shell'),
                    verbose=fresh('bool', 'verbose'))
    if only in (None, 'add_samples'):
        verify_function(ex, SQ + 'add_samples', c_as, env_as)
        fn_entry(fe, info, SQ + 'add_samples')

    # ---- discard_exploration setter
    c_ds = SC.discard_setter_contract()
    reg.add_contract(c_ds)

    def env_ds(ex_, st):
        return dict(self=M.make_sampler(ex_, st),
                    discard_exploration=fresh('bool', 'flag'))
    if only in (None, 'setter'):
        verify_function(ex, SQ + 'discard_exploration.setter', c_ds, env_ds)
        fn_entry(fe, info, SQ + 'discard_exploration.setter')

    # ---- run
    G3 = {}
    c_run = SC.run_contract(G3)
    reg.add_contract(c_run)
    if aspect is not None:
        # extra ghost state / obligations of another property woven into the
        # same symbolic execution of run() (C05: file in sync)
        aspect.install(reg, ex, dict(
            run=c_run, add_bound=c_ab, add_samples=c_as, setter=c_ds,
            write=reg.contracts[SQ + 'write'],
            write_shell_update=reg.contracts[SQ + 'write_shell_update']))

    for vb in (False, True):
        for fl in (False, True):
            unit = 'run[verbose={},file={}]'.format(vb, fl)
            if only not in (None, unit, 'run'):
                continue

            def env_run(ex_, st, vb=vb, fl=fl):
                self_ = M.make_sampler(ex_, st)
                from pyvc.core import Opaque
                st.setfield(self_, 'filepath', Opaque('path') if fl else None)
                return dict(self=self_,
                            f_live=fresh('real', 'f_live'),
                            n_shell=fresh('int', 'n_shell'),
                            n_eff=fresh('real', 'n_eff'),
                            n_like_max=fresh('real', 'n_like_max'),
                            discard_exploration=fresh('bool', 'discard_arg'),
                            timeout=fresh('real', 'timeout'),
                            verbose=vb)
            verify_function(ex, SQ + 'run', c_run, env_run,
                            tag='[verbose={},file={}]'.format(vb, fl))
            fn_entry(fe, info, SQ + 'run')

    info['assumed'] = [
        'Sampler.evaluate_likelihood (body verified in C03)',
        'Sampler.write / write_shell_update: no effect on the sampler object '
        '(proved in C11)',
        'Sampler.print_status, n_eff, f_live, log_v_live: read-only (C11)',
        'UnitCube.compute / NautilusBound.compute: return a new bound object '
        'implementing the abstract Bound API (C07)',
        'resume path of Sampler.__init__ restores the written fields (C05)',
    ]
    info['assumptions'] = [
        'C01: the user likelihood either always or never returns blobs',
        'C01: bound membership C(b, p) does not depend on the sampling state '
        'of the bound (proved per class in C07)',
    ]
    info['inlined'] = sorted(reg.inlined)


_replay_cache = {}


def replay(r, tier, seed):
    """Structural counter-models select the concrete search: run the real
    sampler over the scenario corpus with the C01 monitor at every bound
    insertion and batch boundary."""
    from .common import run_runtime
    if 'rt' not in _replay_cache:
        _replay_cache['rt'] = run_runtime('check_c01.py', [4, 300])
    return _replay_cache['rt']


def bounded(tier, seed):
    if tier != 'thorough':
        return []
    from .common import run_runtime
    rt = run_runtime('check_c01.py', [8, 1000])
    viol = []
    if rt.get('found'):
        viol = [dict(id='runtime_monitor', **rt)]
    return [dict(name='C01/bounded/runtime_monitor',
                 what='P1-P3 monitored on the real Sampler at every bound '
                      'insertion and batch boundary (bounded stand-in for the '
                      'assumed contracts of evaluate_likelihood and of the '
                      'concrete bound classes)',
                 bound='8 scenarios x 2 seeds, n_eff=1000',
                 observed=rt.get('observed'), error=rt.get('error'),
                 violations=viol)]
