"""C02 - log_z, n_eff, eta and weights are the estimators of the stored samples.

  * update_shell_info/post S1: the four statistics of a shell are exactly
    (view size, bound volume x accepted fraction, mean likelihood, Kish size)
    of the stored log-likelihoods of that shell in the current view;
  * ghost "statistics up to date" bit per bound (S_statistics_up_to_date):
    cleared by every write to an input of S1 (log_l of the shell, its proposal
    counter, the bound's sampling state, the view parameters) and by writes to
    the statistic arrays outside update_shell_info, set only by
    update_shell_info; the invariant "every shell is up to date or was never
    sampled" is proved for add_bound, add_samples, the discard setter and every
    branch of run();
  * S2/S3: never more samples than proposals, in either view;
  * log_z = logsumexp over non-empty shells of (mean likelihood + volume);
  * posterior(): log_w[r] = shell volume - log(max(n,1)) + log_l[r].
"""
import z3

from pyvc.core import fresh, Arr, Sym, uid, I, B
from pyvc import arrays as A
from pyvc.npmodel import MaybeNone, NAN
from pyvc.registry import FnContract
from pyvc.symexec import Executor, View
from pyvc.verify import verify_function, verify_block
from pyvc.lib import lse_term, repeat_info, sum_term
from .common import new_registry, fn_entry
from . import C01 as _base
from . import C03 as _c03
from . import sampler_model as M
from . import posterior as P
from .sampler_model import SQ, S

OBLIGATION_FLOOR = 2000
Z3_TIMEOUT_MS = 60000
SAMPLER_UNITS = ['update_shell_info', 'sample_shell', 'add_bound',
                 'add_samples', 'setter', 'run[verbose=False,file=False]',
                 'run[verbose=False,file=True]', 'run[verbose=True,file=False]',
                 'run[verbose=True,file=True]']
UNITS = SAMPLER_UNITS + ['log_z', 'posterior_weights', 'n_eff', 'eta']
BRANCH_COVERED_FUNCTIONS = tuple(SQ + f for f in (
    'update_shell_info', 'add_bound', 'add_samples',
    'discard_exploration.setter', 'run', 'log_z'))
DEAD_BRANCHES = _base.DEAD_BRANCHES
_EX = {}


def _branch_cov():
    out = set(_EX['ex'].branch_cov) if 'ex' in _EX else set()
    return out | set(_base._branch_cov())


def _branch_all():
    out = set(_EX['ex'].branch_all) if 'ex' in _EX else set()
    return out | set(_base._branch_all())


def build(cx, fe, tier, info, only=None):
    if only in SAMPLER_UNITS:
        _base.build(cx, fe, tier, info, only=only)
        info['assumptions'] = [a.replace('C01:', 'C02:')
                               for a in info.get('assumptions', [])]
        return
    reg = new_registry(fe)
    M.install_bound_api(reg, cx)
    ex = Executor(cx, fe, reg)
    _EX['ex'] = ex
    if only in (None, 'log_z'):
        def post(Vo, Vn, res):
            st = Vn.st
            sn, sll, slv = S(Vn, 'shell_n'), S(Vn, 'shell_log_l'), \
                S(Vn, 'shell_log_v')
            total = sum_term(st, sn)
            mask = Arr(sll.n, lambda i: z3.Not(sll.at(i) == NAN), 'bool')
            z = Arr(sll.n, lambda i: sll.at(i) + slv.at(i), 'real')
            zsel = A.filter_mask(st, z, mask, lambda c, g: None)
            if res is None:
                return [('none_iff_no_samples', total == 0)]
            return [('none_iff_no_samples', total != 0),
                    ('log_z_is_logsumexp_of_shell_evidences',
                     I(res) == lse_term(st, zsel) if False else
                     res.t == lse_term(st, zsel))]
        c = FnContract(SQ + 'log_z', post=post,
                       pre=lambda V: M.inv_P1(V))

        def env(ex_, st):
            return dict(self=M.make_sampler(ex_, st))
        verify_function(ex, SQ + 'log_z', c, env)
        fn_entry(fe, info, SQ + 'log_z')
    if only in (None, 'posterior_weights'):
        P.install_user_function_theory(reg)

        def env_rows(ex_, st):
            self_ = M.make_sampler(ex_, st)
            st.env = dict(self=self_)
            for (nm, f) in M.InvAll(View(ex_, st)):
                st.assume(f)
            st.assume(View(ex_, st)('self.bounds').n >= 1)
            return dict(self=self_, return_blobs=False)

        def post_rows(old, o):
            V = View(ex, o)
            from pyvc.npmodel import f_log
            lw, ll = V('log_w'), V('log_l')
            sn, slv = S(V, 'shell_n'), S(V, 'shell_log_v')
            info_ = repeat_info(o, sn)
            per = lambda i: slv.at(i) - f_log(z3.ToReal(  # noqa: E731
                z3.If(sn.at(i) >= 1, sn.at(i), z3.IntVal(1))))
            return [('weights_are_volume_per_sample_times_likelihood', z3.And(
                lw.n == ll.n, lw.n == info_.tot, A.forall_idx(
                    lw.n, lambda r: lw.at(r) == per(info_.src(r)) +
                    ll.at(r))))]
        verify_block(ex, SQ + 'posterior', _c03.select_rows_block, env_rows,
                     post_rows, tag='[weights]')
        fn_entry(fe, info, SQ + 'posterior', status='block')
    if only in (None, 'n_eff', 'eta'):
        from pyvc.npmodel import f_exp, f_log
        from pyvc.lib import array_fn
        from pyvc.arrays import zv

        def env_acc(ex_, st):
            self_ = M.make_sampler(ex_, st)
            st.env = dict(self=self_)
            for (nm, f) in M.inv_P1(View(ex_, st)):
                st.assume(f)
            return dict(self=self_)

        def nop(clause, goal):
            return None
    if only in (None, 'n_eff'):
        def post_ne(Vo, Vn, res):
            st = Vn.st
            ne, sll, slv = S(Vn, 'shell_n_eff'), S(Vn, 'shell_log_l'), \
                S(Vn, 'shell_log_v')
            none = A.count(st, Arr(ne.n, lambda i: ne.at(i) == 0, 'bool')) \
                == ne.n
            sel = Arr(ne.n, lambda i: ne.at(i) > 0, 'bool')
            z = Arr(sll.n, lambda i: sll.at(i) + slv.at(i), 'real')
            zmax = array_fn(st, 'nanmax', z, 'real')
            w = Arr(z.n, lambda i: f_exp(z.at(i) - zmax), 'real')
            ws = A.filter_mask(st, w, sel, nop)
            nes = A.filter_mask(st, A.to_real(ne) if ne.k == 'int' else ne,
                                sel, nop)
            w2 = Arr(ws.n, lambda j: ws.at(j) * ws.at(j) / nes.at(j), 'real')
            sw = array_fn(st, 'sum_real', ws, 'real')
            sw2 = array_fn(st, 'sum_real', w2, 'real')
            r = zv(res, 'real')
            return [('n_eff_is_zero_without_informative_shells',
                     z3.Implies(none, r == 0)),
                    ('n_eff_is_kish_size_of_the_shell_weights', z3.Implies(
                        z3.Not(none), r == sw * sw / sw2))]
        verify_function(ex, SQ + 'n_eff', FnContract(SQ + 'n_eff',
                                                     post=post_ne), env_acc)
        fn_entry(fe, info, SQ + 'n_eff')
    if only in (None, 'eta'):
        def post_eta(Vo, Vn, res):
            st = Vn.st
            ne, sn, sll, slv = S(Vn, 'shell_n_eff'), S(Vn, 'shell_n'), \
                S(Vn, 'shell_log_l'), S(Vn, 'shell_log_v')
            sel = Arr(sll.n, lambda i: z3.Not(sll.at(i) == NAN), 'bool')
            z = Arr(sll.n, lambda i: sll.at(i) + slv.at(i), 'real')
            ner = A.to_real(ne) if ne.k == 'int' else ne
            snr = A.to_real(sn) if sn.k == 'int' else sn
            eta = Arr(ne.n, lambda i: ner.at(i) / snr.at(i), 'real')
            zs = A.filter_mask(st, z, sel, nop)
            es = A.filter_mask(st, eta, sel, nop)
            y = Arr(zs.n, lambda j: zs.at(j) - z3.RealVal('0.5') *
                    f_log(es.at(j)), 'real')
            return [('eta_is_the_squared_ratio_of_the_two_shell_sums',
                     zv(res, 'real') == f_exp(2 * lse_term(st, zs) -
                                              2 * lse_term(st, y)))]
        verify_function(ex, SQ + 'eta', FnContract(SQ + 'eta', post=post_eta),
                        env_acc)
        fn_entry(fe, info, SQ + 'eta')
    info['assumptions'] = [
        'C02: n_eff / eta: the bodies are proved equal to the shell-level '
        'formulas (Kish size of the shell weights with per-shell sizes; '
        'squared ratio of the two shell sums); that these equal the '
        'sample-level Kish size follows from the per-shell identity S1 '
        '(n_eff_s = (sum w)^2 / sum w^2, proved for update_shell_info) by '
        'splitting the sums over shells: a mathematical lemma, not '
        'machine-checked',
        'C02: IEEE -inf / nan are distinguished constants; log/exp/logsumexp '
        'uninterpreted (term equalities)',
    ]


_cache = {}


def replay(r, tier, seed):
    from .common import run_runtime
    if 'rt' not in _cache:
        _cache['rt'] = run_runtime('check_c02.py', [3])
    return _cache['rt']
