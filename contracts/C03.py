"""C03 - posterior rows are faithful (point, log-likelihood, blob) triples.

Units: Sampler.evaluate_likelihood (whole body, all evaluation modes), the
alignment invariant A1/A2 through add_bound / add_samples / run (shared
Sampler contracts), and the two blocks of Sampler.posterior.
"""
import ast
import z3

from pyvc.core import fresh, Opaque, Arr, Sym, Ref, uid, I, B
from pyvc import arrays as A
from pyvc.npmodel import MaybeNone
from pyvc.symexec import Executor, View
from pyvc.verify import verify_function, verify_block
from .common import new_registry, fn_entry
from . import sampler_model as M
from . import sampler_contracts as SC
from . import posterior as P
from . import userfn as UF
from .sampler_model import SQ

OBLIGATION_FLOOR = 30
Z3_TIMEOUT_MS = 40000
from . import C01 as _base  # noqa: E402
from . import C14 as _c14   # noqa: E402

SAMPLER_UNITS = ['add_bound', 'add_samples', 'run[verbose=False,file=False]',
                 'run[verbose=False,file=True]', 'run[verbose=True,file=False]',
                 'run[verbose=True,file=True]']
UNITS = ['evaluate_likelihood', 'posterior_rows', 'posterior_transform'] + \
    SAMPLER_UNITS + ['support:NautilusBound.worker']
BRANCH_COVERED_FUNCTIONS = (SQ + 'evaluate_likelihood', SQ + 'add_bound',
                            SQ + 'add_samples', SQ + 'run')
Z3_TIMEOUT_MS = 60000
DEAD_BRANCHES = _base.DEAD_BRANCHES
_EX = {}


def _branch_cov():
    out = set(_EX['ex'].branch_cov) if 'ex' in _EX else set()
    return out | set(_base._branch_cov())


def _branch_all():
    out = set(_EX['ex'].branch_all) if 'ex' in _EX else set()
    return out | set(_base._branch_all())


def select_rows_block(fnode):
    """posterior(): from the choice of `start` up to (excluding) the
    `if equal_weight:` statement"""
    body = fnode.body
    a = b = None
    for i, n in enumerate(body):
        if isinstance(n, ast.If) and ast.unparse(n.test) == \
                'self._discard_exploration and self.explored':
            a = i
        if isinstance(n, ast.If) and ast.unparse(n.test) == 'equal_weight':
            b = i
    if a is None or b is None:
        return []
    return body[a:b]


def build(cx, fe, tier, info, only=None):
    if only is not None and only.startswith('support:'):
        # "every evaluated point is stored once": a pool worker returns only
        # proposals it drew itself (unit shared with C07), so no proposal is
        # handed out - hence evaluated and stored - twice
        from . import C07
        keep = _EX.get('ex')
        C07.build(cx, fe, tier, info, only=only.split(':', 1)[1])
        if keep is not None:
            _EX['ex'] = keep
        return
    if only in SAMPLER_UNITS:
        _base.build(cx, fe, tier, info, only=only)
        info['assumptions'] = [a.replace('C01:', 'C03:')
                               for a in info.get('assumptions', [])]
        return
    reg = new_registry(fe)
    M.install_bound_api(reg, cx)
    G = {}
    UF.install(reg, G)
    ex = Executor(cx, fe, reg)
    _EX['ex'] = ex
    if only in (None, 'evaluate_likelihood'):
        c = SC.evaluate_likelihood_contract()

        def env(ex_, st):
            UF.axioms(st)
            self_ = M.make_sampler(ex_, st)
            pts = st.alloc(A.fresh_arr(st, 'Pt', 'batch'), 'batch')
            return dict(self=self_, points=pts)
        verify_function(ex, SQ + 'evaluate_likelihood', c, env)
        fn_entry(fe, info, SQ + 'evaluate_likelihood')
    if only in (None, 'posterior_rows'):
        P.install_user_function_theory(reg)

        def env_rows(ex_, st):
            self_ = M.make_sampler(ex_, st)
            for (nm, f) in M.InvAll(View(ex_, _with_env(st, self_))):
                st.assume(f)
            st.assume(View(ex_, _with_env(st, self_))('self.bounds').n >= 1)
            return dict(self=self_, return_blobs=fresh('bool', 'return_blobs'))

        def post_rows(old, o):
            V = View(ex, o)
            pts, ll = V('points'), V('log_l')
            out = [('rows_aligned', ll.n == pts.n),
                   ('log_l_is_likelihood_of_row', A.forall_idx(
                       pts.n, lambda r: ll.at(r) == M.L(pts.at(r))))]
            if 'blobs' in o.env:
                bl = V('blobs')
                out.append(('blob_is_blob_of_row', z3.And(
                    bl.n == pts.n, A.forall_idx(
                        pts.n, lambda r: bl.at(r) == M.Bl(pts.at(r))))))
            lw = V('log_w')
            out.append(('weights_aligned', lw.n == pts.n))
            return out

        def raises_rows(old, o, exc):
            bn, _ = M.blobs_of(View(ex, old))
            return [('only_no_blobs_error', z3.And(
                z3.BoolVal(exc == 'ValueError'), bn,
                B(old.env['return_blobs'])))]
        verify_block(ex, SQ + 'posterior', select_rows_block, env_rows,
                     post_rows, tag='[rows]', raises=raises_rows)
        fn_entry(fe, info, SQ + 'posterior', status='blocks')
    if only in (None, 'posterior_transform'):
        P.install_user_function_theory(reg)
        Gt = {}

        def env_tr(ex_, st):
            self_ = M.make_sampler(ex_, st)
            n = z3.Int(uid('n_rows'))
            st.assume(n >= 0)
            pts = A.fresh_arr(st, 'Pt', 'w_points', n=n)
            lw = A.fresh_arr(st, 'real', 'w_log_w', n=n)
            ll = A.fresh_arr(st, 'real', 'w_log_l', n=n)
            bl = A.fresh_arr(st, 'Blob', 'w_blobs', n=n)
            Gt.update(points=pts, log_w=lw, log_l=ll, blobs=bl, n=n)
            return dict(self=self_, points=st.alloc(pts, 'p'),
                        log_w=st.alloc(lw, 'lw'), log_l=st.alloc(ll, 'll'),
                        blobs=st.alloc(bl, 'bl'), equal_weight=False,
                        equal_weight_boost=1.0,
                        return_blobs=fresh('bool', 'return_blobs'),
                        return_as_dict=fresh('bool', 'as_dict'))

        def post_tr(old, o):
            res = o.retval
            if not isinstance(res, tuple):
                return [('result_is_tuple', z3.BoolVal(False))]
            from pyvc.lib import lse_term
            op, ow, ol = (ex.deref(o, res[0]), ex.deref(o, res[1]),
                          ex.deref(o, res[2]))
            n = Gt['n']
            out = [('rows_keep_their_values', z3.And(
                op.n == n, ow.n == n, ol.n == n, A.forall_idx(
                    n, lambda r: z3.And(
                        op.at(r) == P.T(Gt['points'].at(r)),
                        ol.at(r) == Gt['log_l'].at(r),
                        ow.at(r) == Gt['log_w'].at(r) - lse_term(
                            o, Gt['log_w'])))))]
            if len(res) == 4:
                ob = ex.deref(o, res[3])
                out.append(('blobs_keep_their_rows', z3.And(
                    ob.n == n, A.forall_idx(
                        n, lambda r: ob.at(r) == Gt['blobs'].at(r)))))
            return out

        def raises_tr(old, o, exc):
            return [('only_the_documented_dictionary_error', z3.And(
                z3.BoolVal(exc == 'ValueError'), P.PRIOR_CALLABLE,
                View(ex, old).bool('self.pass_dict')))]
        verify_block(ex, SQ + 'posterior', _c14.select_block, env_tr, post_tr,
                     tag='[transform]', raises=raises_tr)
    info['assumptions'] = [
        'C03: the user prior/likelihood are functions of the point (T, L, Bl); '
        'the prior may modify the array object it receives; the likelihood '
        'returns a tuple iff it returns blobs; vectorised functions are '
        'row-wise; pool.map preserves order (C11)',
        'C03: np.squeeze removes every axis of length one (including the batch '
        'axis of a single-row array)',
    ]


def _with_env(st, self_):
    st.env = dict(self=self_)
    return st


_cache = {}


def replay(r, tier, seed):
    from .common import run_runtime
    if 'rt' not in _cache:
        _cache['rt'] = run_runtime('check_c03.py', ['quick'])
    return _cache['rt']


def bounded(tier, seed):
    if tier != 'thorough':
        return []
    from .common import run_runtime
    rt = run_runtime('check_c03.py', ['full'], timeout=1500)
    viol = [dict(id='modes', **rt)] if rt.get('found') else []
    return [dict(name='C03/bounded/evaluation_modes',
                 what='faithful (point, log_l, blob) rows, no duplicates, on '
                      'the real Sampler for 4 blob kinds x scalar/vectorised x '
                      'batch sizes 1,2,7,50 x in-place prior (uniqueness of '
                      'rows has no proof: bounded only)',
                 bound='36 configurations', observed=rt.get('observed'),
                 error=rt.get('error'), violations=viol)]
