"""C05 - stopping and resuming at any batch boundary does not change the result.

Machine-checked pieces (DESIGN.md 7, C05):
  1. write(): the real body is executed on an arbitrary sampler; the resulting
     HDF5 tree T(s) is explicit (literal keys + shell families).
  2. write_shell_update(shell) is equivalent to a full write for every change
     that can occur between two writes: compose write(s0); havoc(M);
     write_shell_update(s1); compare with write(s1), where M is the union of the
     modifies clauses of add_samples (for that shell) and of the public
     discard_exploration setter plus the run-loop counters.
  3. resume: the real resume block of __init__ executed on T(s) restores every
     field of the continuation state K (run-state fields, shells, transfer
     arrays, bounds with their proposal state, generator state) and hands the
     one shared generator to every bound.
  4. run(): protocol obligations - every state-changing step of an iteration is
     followed, before the iteration ends, by the matching write (call-order
     ghost log).
The final step (one iteration is a deterministic function of K, hence equal K
gives a bit-identical continuation) is the determinism argument of C11 and is
not machine-checked.
"""
import ast
import z3

from pyvc.core import (State, Sym, Arr, Arr2, LArr, SList, PyList, FlatList,
                       ObjRec, Ref, Opaque, ClassVal, fresh, fresh_fn, uid, I,
                       B, sort_of, OutsideSubset, Raised)
from pyvc import arrays as A
from pyvc import h5
from pyvc.npmodel import MaybeNone
from pyvc.registry import FnContract
from pyvc.symexec import Executor, LoopSpec, View, Lib, PyCallable, BoundMethod
from pyvc.verify import values_equal, cells_equal, verify_function
from .common import new_registry, fn_entry
from . import sampler_model as M
from . import sampler_contracts as SC
from .sampler_model import SQ, S
from .C09_union import trees_equal

OBLIGATION_FLOOR = 60
Z3_TIMEOUT_MS = 40000
UNITS = ['write', 'update_equals_write', 'resume', 'run_protocol', 'run_sync']
BRANCH_COVERED_FUNCTIONS = ()
DEAD_BRANCHES = ()
_EX = {}


def _branch_cov():
    return _EX['ex'].branch_cov if 'ex' in _EX else []


def _branch_all():
    return _EX['ex'].branch_all if 'ex' in _EX else []


BTree = sort_of('BoundTree')
RngVal = sort_of('RngVal')
StrV = sort_of('StrV')
TB = z3.Function('bound_tree', M.Bound, z3.IntSort(), BTree)
TB_bound = z3.Function('bound_of_tree', BTree, M.Bound)
TB_state = z3.Function('state_of_tree', BTree, z3.IntSort())
STR = z3.Function('str', RngVal, StrV)
INT = z3.Function('int', StrV, RngVal)
RNG_COMPONENT = z3.Function('rng_component', z3.IntSort(), z3.IntSort(),
                            RngVal)      # (generator version, which) -> value


def axioms(st):
    b = z3.Const('b!q', M.Bound)
    s = z3.Int('s!q')
    x = z3.Const('x!q', RngVal)
    # round trip of a bound with its proposal state (C09; for NautilusBound /
    # NeuralBound the bounded leg of C09)
    st.assume(z3.ForAll([b, s], z3.And(TB_bound(TB(b, s)) == b,
                                       TB_state(TB(b, s)) == s)))
    # int(str(x)) == x for the (arbitrarily large) integers of the PCG64 state
    st.assume(z3.ForAll([x], INT(STR(x)) == x))
    # a unit cube has no proposal state: its tree does not depend on it
    s2 = z3.Int('s2!q')
    st.assume(z3.ForAll([b, s, s2], z3.Implies(
        z3.Not(M.isNB(b)), TB(b, s) == TB(b, s2))))


class RngState:
    """dict returned by rng.bit_generator.state"""

    def __init__(self, ver):
        self.ver = ver


class PyDict:
    def __init__(self, d):
        self.d = d


def rng_ver(st):
    if 'rng_ver' not in st.ghost:
        st.ghost['rng_ver'] = fresh('int', 'rngver')
    v = st.ghost['rng_ver']
    return v.t if isinstance(v, Sym) else v


def install(reg, G):
    h5.install(reg)
    reg.globals['Path'] = Opaque('sink:path')
    reg.globals['os'] = Opaque('sink:os')
    reg.globals['copyfile'] = Opaque('sink:copyfile')

    def h5file(ex, st, args, kw, node):
        mode = args[1] if len(args) > 1 else 'r'
        if mode in ('x', 'w'):
            root = h5.new_group(st)
            st.ghost['file'] = root
            return root
        if 'file' not in st.ghost:
            raise Raised('OSError')
        return st.ghost['file']
    reg.globals['h5py'] = Lib('h5py')
    reg.lib['h5py.File'] = h5file

    # --- bounds: abstract write / update / read
    def b_write(ex, st, b, args, kw, node):
        h = args[0]
        if not isinstance(h, h5.FamElem):
            raise OutsideSubset('bound.write target', node)
        g = st.cell(h.gref).clone()
        fam = g.fams[h.prefix]
        old, idx = fam.at, h.idx
        t = TB(b.t, z3.Select(M.sstate(st), b.t))
        g.fams[h.prefix] = h5.Family('group', fam.n, lambda i: z3.If(
            i == idx, t, old(i)))
        st.set_cell(h.gref, g)
        return None
    reg.sort_methods[('Bound', 'write')] = b_write
    reg.sort_methods[('Bound', 'update')] = b_write

    def read_bound(cls_is_nb):
        def call(ex, st, args, kw, node):
            h = args[0]
            if isinstance(h, Ref) and isinstance(st.cell(h), h5.H5Group):
                raise OutsideSubset('bound read from a literal group', node)
            fam = st.cell(h.gref).fams[h.prefix]
            tok = fam.at(h.idx)
            b = TB_bound(tok)
            ex.cx.oblige(st, 'call_pre/bound.read/class_matches@L{}'.format(
                getattr(node, 'lineno', 0)),
                M.isNB(b) == z3.BoolVal(cls_is_nb), kind='call_pre')
            ex.cx.oblige(st, 'call_pre/bound.read/shared_generator@L{}'.format(
                getattr(node, 'lineno', 0)),
                z3.BoolVal(isinstance(kw.get('rng'), Opaque) and
                           kw['rng'].what == 'rng'), kind='call_pre')
            st.ghost['sstate'] = z3.Store(M.sstate(st), b, TB_state(tok))
            return Sym(b, 'Bound')
        return call
    G['read_uc'] = read_bound(False)
    G['read_nb'] = read_bound(True)
    prev_getattr = reg.getattr_hook

    def getattr_hook(ex, st, o, d, name, node):
        if isinstance(d, h5.FamElem) and name == 'attrs':
            return ('famattrs', d)
        if isinstance(d, ClassVal) and name == 'read' and d.name in (
                'UnitCube', 'NautilusBound'):
            return PyCallable(G['read_uc'] if d.name == 'UnitCube'
                              else G['read_nb'])
        if isinstance(d, Opaque) and d.what == 'rng' and \
                name == 'bit_generator':
            return Opaque('bitgen')
        if isinstance(d, Opaque) and d.what == 'bitgen' and name == 'state':
            return RngState(rng_ver(st))
        if isinstance(d, Opaque) and d.what == 'dict':
            return Opaque('sink:dict')
        if isinstance(d, Sym) and d.k == 'Bound':
            if name == 'log_v':
                return Sym(M.LV(d.t, z3.Select(M.sstate(st), d.t)), 'real')
        if isinstance(d, Arr) and name == 'dtype':
            return Opaque('dtype')
        if prev_getattr is not None:
            return prev_getattr(ex, st, o, d, name, node)
        return NotImplemented
    reg.getattr_hook = getattr_hook
    prev_sub = reg.subscript_hook
    COMP = {'state': 0, 'inc': 1, 'has_uint32': 2, 'uinteger': 3}

    def subscript_hook(ex, st, base, d, sl, node):
        if isinstance(base, tuple) and base and base[0] == 'famattrs':
            key = ex.eval(sl, st)
            if key != 'type':
                raise OutsideSubset('attribute of an abstract bound group',
                                    node)
            h = base[1]
            tok = st.cell(h.gref).fams[h.prefix].at(h.idx)
            # every bound class writes its class name under 'type'
            return Sym(TB_bound(tok), 'BoundTypeOf')
        if isinstance(base, RngState):
            key = ex.eval(sl, st)
            if key == 'state':
                return ('rngsub', base.ver)
            return Sym(RNG_COMPONENT(base.ver, z3.IntVal(COMP[key])), 'RngVal')
        if isinstance(base, tuple) and base and base[0] == 'rngsub':
            key = ex.eval(sl, st)
            return Sym(RNG_COMPONENT(base[1], z3.IntVal(COMP[key])), 'RngVal')
        if isinstance(d, Opaque) and d.what == 'dict':
            return Opaque('sink:dictvalue')
        if prev_sub is not None:
            return prev_sub(ex, st, base, d, sl, node)
        return NotImplemented
    reg.subscript_hook = subscript_hook

    def compare_hook(ex, st, op, a, b):
        if isinstance(a, Sym) and a.k == 'BoundTypeOf' and isinstance(
                op, ast.Eq) and b in ('UnitCube', 'NautilusBound'):
            t = M.isNB(a.t)
            return Sym(z3.Not(t) if b == 'UnitCube' else t, 'bool')
        return NotImplemented
    reg.compare_hook = compare_hook

    def str_hook(ex, st, v, node):
        if isinstance(v, Sym) and v.k == 'RngVal':
            return Sym(STR(v.t), 'StrV')
        return Opaque('str')
    reg.str_hook = str_hook

    def int_hook(ex, st, v, node):
        if isinstance(v, Sym) and v.k == 'StrV':
            return Sym(INT(v.t), 'RngVal')
        raise OutsideSubset('int({!r})'.format(v), node)
    reg.int_hook = int_hook

    def b_dict(ex, st, args, kw, node):
        return PyDict(dict(kw))
    reg.lib['dict'] = b_dict
    prev_setattr = reg.setattr_hook

    def setattr_hook(ex, st, o, attr, v, node):
        if isinstance(o, Opaque) and o.what == 'bitgen' and attr == 'state':
            if not isinstance(v, PyDict):
                raise OutsideSubset('generator state value', node)
            inner = v.d['state']
            G['restored_rng'] = (inner.d['state'], inner.d['inc'],
                                 v.d['has_uint32'], v.d['uinteger'])
            st.ghost['rng_restored'] = G['restored_rng']
            return True
        if prev_setattr is not None:
            return prev_setattr(ex, st, o, attr, v, node)
        return False
    reg.setattr_hook = setattr_hook
    reg.lib['tuple'] = lambda ex, st, a, k, n: Opaque('tuple')
    base_list = reg.list_hook

    def b_list(ex, st, v, node):
        if isinstance(v, tuple):
            return st.alloc(PyList(list(v)), 'list')
        if base_list is not None:
            return base_list(ex, st, v, node)
        raise OutsideSubset('list({!r})'.format(v), node)
    reg.list_hook = b_list

    def iter_hook(ex, st, v, node):
        from pyvc.symexec import IterDom
        if isinstance(v, Opaque) and v.what.startswith('sink'):
            n = z3.Int(uid('n_items'))
            st.assume(n >= 0)
            return IterDom(n, lambda k: Opaque('sink:item'))
        return None
    reg.iter_hook = iter_hook
    prev_fmt = reg.str_format

    def str_format(ex, st, s, args, node):
        if args and isinstance(args[0], Opaque):
            return Opaque('sink:key')
        return prev_fmt(ex, st, s, args, node)
    reg.str_format = str_format
    prev_set = reg.setitem_hook

    def setitem_hook(ex, st, base, d, sl, v, node):
        if isinstance(base, h5.AttrsProxy):
            key = ex.eval(sl, st)
            if isinstance(key, Opaque):
                # neural_network_<key> attributes: constructor arguments, not
                # part of the continuation state (given again on resume)
                return True
        return prev_set(ex, st, base, d, sl, v, node)
    reg.setitem_hook = setitem_hook


def shell_family_inv(V, kk):
    """the three shell families hold the first kk shells of the sampler"""
    g = V.st.cell(V.st.cell(V.st.ghost['file']).groups['sampler'])
    out = []
    for (prefix, field) in (('points_', 'points'), ('log_l_', 'log_l')):
        fam = g.fams.get(prefix)
        src = S(V, field)
        L = fam.at
        i, j = A.qi('i'), A.qi('j')
        out.append((prefix + 'written', z3.And(
            fam.n == kk, A.forall_idx(kk, lambda t: L.alen(t) == src.alen(t)),
            z3.ForAll([i, j], z3.Implies(
                z3.And(i >= 0, i < kk, j >= 0, j < src.alen(i)),
                L.at(i, j) == src.at(i, j))))))
    bn, bl = M.blobs_of(V)
    fam = g.fams.get('blobs_')
    if fam is not None and bl is not None:
        L = fam.at
        i, j = A.qi('i'), A.qi('j')
        out.append(('blobs_written', z3.If(bn, fam.n == 0, z3.And(
            fam.n == kk, A.forall_idx(kk, lambda t: L.alen(t) == bl.alen(t)),
            z3.ForAll([i, j], z3.Implies(
                z3.And(i >= 0, i < kk, j >= 0, j < bl.alen(i)),
                L.at(i, j) == bl.at(i, j)))))))
    return out


def write_loops():
    def prep_shell(ex, st):
        root = st.cell(st.ghost['file'])
        gref = root.groups['sampler']
        g = st.cell(gref).clone()
        for (p, k) in (('points_', 'Pt'), ('log_l_', 'real'),
                       ('blobs_', 'Blob')):
            if p not in g.fams:
                g.fams[p] = h5.Family('dset', z3.IntVal(0), LArr(
                    0, lambda i: z3.IntVal(0),
                    lambda i, j, k=k: z3.Const('nothing_' + k, sort_of(k) if
                                               k not in ('real',) else
                                               z3.RealSort()), k))
        st.set_cell(gref, g)

    def inv_shell(V):
        return shell_family_inv(V, V.k(2))

    def prep_bound(ex, st):
        rref = st.ghost['file']
        g = st.cell(rref).clone()
        if 'bound_' not in g.fams:
            g.fams['bound_'] = h5.Family('group', z3.IntVal(0),
                                         lambda i: z3.Const('no_tree', BTree))
            st.set_cell(rref, g)

    def inv_bound(V):
        b = S(V, 'bounds')
        kk = V.k(3)
        fam = V.st.cell(V.st.ghost['file']).fams['bound_']
        ss = M.sstate(V.st)
        return [('bounds_written', z3.And(fam.n == kk, A.forall_idx(
            kk, lambda t: fam.at(t) == TB(b.at(t), z3.Select(ss, b.at(t))))))]
    return {1: LoopSpec(inv=None),
            2: LoopSpec(inv=inv_shell, prepare=prep_shell,
                        h5_fams=['points_', 'log_l_', 'blobs_']),
            3: LoopSpec(inv=inv_bound, prepare=prep_bound,
                        h5_fams=['bound_'])}


def h5_havoc(ex, st, g, hint):
    n = g.clone()
    only = st.ghost.get('h5_havoc_fams') or ()
    for p, fam in list(g.fams.items()):
        if p not in only:
            continue
        cnt = z3.Int(uid(p + 'n'))
        st.assume(cnt >= 0)
        if fam.kind == 'group':
            f = fresh_fn(['int'], 'BoundTree', p + 'tok')
            n.fams[p] = h5.Family('group', cnt, lambda i, f=f: f(i))
        else:
            n.fams[p] = h5.Family('dset', cnt, A.fresh_larr(
                st, fam.at.k, p, n=cnt))
    return n


def make_env(ex_, st):
    axioms(st)
    self_ = M.make_sampler(ex_, st)
    st.env = dict(self=self_)
    for (nm, f) in M.InvAll(View(ex_, st)) + M.inv_phase(View(ex_, st)):
        st.assume(f)
    rng_ver(st)
    return self_


def run_write(ex, fe, st, self_):
    """execute the real write(); returns final states (status 'return')"""
    st.env = dict(self=self_, filepath=Opaque('sink:pathlike'), overwrite=True)
    return ex.run_function(fe.get(SQ + 'write'), st, write_loops())


MODIFIED_BETWEEN_WRITES = [
    # add_samples(shell) (its modifies clause, C01) ...
    'points', 'log_l', 'blobs', 'shell_t', 'n_like', 'shell_n_sample',
    'shell_n', 'shell_log_v', 'shell_log_l', 'shell_n_eff',
    # ... the run-loop counters ...
    'n_update_iter', 'n_like_iter',
    # ... and the public discard_exploration setter (its modifies clause, C12)
    '_discard_exploration']


def build(cx, fe, tier, info, only=None):
    reg = new_registry(fe)
    M.install_bound_api(reg, cx)
    M.install_sampler_hooks(reg)
    G = {}
    install(reg, G)
    reg.h5_havoc = h5_havoc
    ex = Executor(cx, fe, reg)
    _EX['ex'] = ex
    if only in (None, 'write'):
        unit_write(cx, fe, info, ex)
    if only in (None, 'update_equals_write'):
        unit_update(cx, fe, info, ex)
    if only in (None, 'resume'):
        from .C05_resume import unit_resume
        unit_resume(cx, fe, info, ex, G)
    if only in (None, 'run_protocol'):
        from .C05_resume import unit_protocol
        unit_protocol(cx, fe, info)
    if only in (None, 'run_sync'):
        from . import C01
        from .C05_sync import Sync
        info2 = dict(functions=[])
        C01.build(cx, fe, tier, info2, only='run[verbose=False,file=True]',
                  aspect=Sync(fe, SQ + 'run', MODIFIED_BETWEEN_WRITES))
        fn_entry(fe, info, SQ + 'run', status='file-in-sync invariant woven '
                 'into the C01 proof of run() (contracts of C01 re-verified)')
    info['assumptions'] = [
        'C05: at entry of run() the checkpoint file, if the sampler has made '
        'likelihood calls, equals write(state) (established by resume, by '
        'the previous run() and by construction); n_update >= 1 and '
        'n_like_new_bound >= 1; list mutations through .pop() in the '
        'empty-shell removal are not tracked as dirty (a full write follows)',
        'C05: h5py exact storage, closed world; int(str(x)) == x; a bound and '
        'its proposal state survive write/read and update/read (C09: proved '
        'for every bound class; the emulator inside a NeuralBound is assumed)',
        'C05: equal continuation state K at a batch boundary gives a '
        'bit-identical continuation: determinism argument (C11), not '
        'machine-checked',
        'C05: constructor arguments (n_live, n_batch, prior, likelihood, ...) '
        'are given again on resume (documented usage), so only run state is '
        'compared',
    ]


def guarded(cx, name, fn):
    st0 = State()
    n0 = len(cx.obligations)
    cx.prefix = name + '/'
    try:
        fn()
    except OutsideSubset as e:
        del cx.obligations[n0:]
        cx.oblige(st0, 'in_subset', z3.BoolVal(False), kind='in_subset',
                  reason='OutsideSubset: {} (line {})'.format(
                      e, getattr(e.node, 'lineno', cx.line)))
    cx.prefix = ''


def unit_write(cx, fe, info, ex):
    def body():
        st = State()
        self_ = make_env(ex, st)
        for o in run_write(ex, fe, st, self_):
            if o.status != 'return':
                # wrong file ending / existing file without overwrite: the
                # two documented errors, raised before anything is written
                cx.oblige(o, 'write_raises_only_documented/{}'.format(o.exc),
                          z3.BoolVal(o.exc in ('ValueError', 'RuntimeError')
                                     and 'file' not in o.ghost),
                          kind='raises')
                continue
            V = View(ex, o)
            o.env = dict(self=self_)
            root = o.cell(o.ghost['file'])
            g = o.cell(root.groups['sampler'])
            nb = S(V, 'bounds').n
            for (nm, f) in shell_family_inv(V, nb):
                cx.oblige(o, 'tree/' + nm, f, kind='post')
            for key in ['n_like', 'explored', '_discard_exploration', 'shell_n',
                        'shell_n_sample', 'shell_n_eff', 'shell_log_l_min',
                        'shell_log_l', 'shell_log_v', 'shell_n_sample_exp',
                        'shell_end_exp', 'n_update_iter', 'n_like_iter']:
                ok = key in g.attrs
                e = values_equal(ex, o, g.attrs.get(key), o, V.raw(
                    'self.' + key)) if ok else z3.BoolVal(False)
                cx.oblige(o, 'tree/attr/' + key, z3.BoolVal(True) if e is None
                          else e, kind='post')
            for key in ['points_t', 'shell_t', 'log_l_t']:
                ok = key in g.dsets
                e = values_equal(ex, o, g.dsets.get(key), o, V.raw(
                    'self.' + key)) if ok else z3.BoolVal(False)
                cx.oblige(o, 'tree/dataset/' + key, z3.BoolVal(True)
                          if e is None else e, kind='post')
            fam = root.fams['bound_']
            b = S(V, 'bounds')
            ss = M.sstate(o)
            cx.oblige(o, 'tree/bounds', z3.And(fam.n == nb, A.forall_idx(
                nb, lambda t: fam.at(t) == TB(b.at(t), z3.Select(
                    ss, b.at(t))))), kind='post')
            for i, nm in enumerate(['rng_state', 'rng_inc', 'rng_has_uint32',
                                    'rng_uinteger']):
                cx.oblige(o, 'tree/attr/' + nm, z3.BoolVal(nm in g.attrs),
                          kind='post')
    guarded(cx, 'Sampler.write', body)
    fn_entry(fe, info, SQ + 'write')


def unit_update(cx, fe, info, ex):
    def body():
        st = State()
        self_ = make_env(ex, st)
        for o in run_write(ex, fe, st, self_):
            if o.status != 'return':
                continue
            g1 = o.ghost['file']
            o.env = dict(self=self_)
            V = View(ex, o)
            nb = S(V, 'bounds').n
            sh = fresh('int', 'shell')
            o.assume(z3.And(sh.t >= -nb, sh.t < nb, nb >= 1))
            idx = z3.If(sh.t < 0, sh.t + nb, sh.t)
            rec = o.cell(self_)
            old_fields = dict(rec.fields)
            # everything that may change between two writes: fresh values
            for f in MODIFIED_BETWEEN_WRITES:
                v = rec.fields[f]
                rec.fields[f] = ex.havoc_value(o, v, f) if not isinstance(
                    v, MaybeNone) else v
            # ... but only shell `shell` of the per-shell lists changes
            for f in ('points', 'log_l'):
                Ln, Lo = ex.deref(o, rec.fields[f]), ex.deref(o, old_fields[f])
                i, j = A.qi('i'), A.qi('j')
                o.assume(z3.And(Ln.n == Lo.n, z3.ForAll([i], z3.Implies(
                    z3.And(i >= 0, i < Lo.n, i != idx),
                    Ln.alen(i) == Lo.alen(i))), z3.ForAll(
                    [i, j], z3.Implies(
                        z3.And(i >= 0, i < Lo.n, i != idx, j >= 0,
                               j < Lo.alen(i)),
                        Ln.at(i, j) == Lo.at(i, j)))))
            bv = rec.fields['blobs']
            if isinstance(bv, MaybeNone) and isinstance(bv.val, Ref):
                Lo = o.cell(bv.val)
                Ln = A.fresh_larr(o, 'Blob', 'blobs2', n=Lo.n)
                i, j = A.qi('i'), A.qi('j')
                o.assume(z3.And(z3.ForAll([i], z3.Implies(
                    z3.And(i >= 0, i < Lo.n, i != idx),
                    Ln.alen(i) == Lo.alen(i))), z3.ForAll(
                    [i, j], z3.Implies(
                        z3.And(i >= 0, i < Lo.n, i != idx, j >= 0,
                               j < Lo.alen(i)),
                        Ln.at(i, j) == Lo.at(i, j)))))
                rec.fields['blobs'] = MaybeNone(bv.isnone, o.alloc(Ln, 'b2'))
            for f in ('shell_n', 'shell_n_sample', 'shell_n_eff',
                      'shell_log_l', 'shell_log_v', 'shell_t'):
                o.assume(ex.deref(o, rec.fields[f]).n ==
                         ex.deref(o, old_fields[f]).n)
            # the sampled bound's proposal state and the generator advance
            b = S(V, 'bounds')
            o.ghost['sstate'] = z3.Store(M.sstate(o), b.at(idx),
                                         z3.Int(uid('ss2')))
            o.ghost['rng_ver'] = fresh('int', 'rngver2')
            for (nm, f) in M.inv_P1(View(ex, o)) + M.inv_rows_aligned(
                    View(ex, o)) + M.inv_blobs(View(ex, o)):
                o.assume(f)
            o.status = 'normal'
            o.env = dict(self=self_, filepath=Opaque('sink:pathlike'),
                         shell=sh)
            for u in ex.run_function(fe.get(SQ + 'write_shell_update'), o,
                                     None):
                if u.status != 'return':
                    cx.oblige(u, 'update_does_not_raise/{}'.format(u.exc),
                              z3.BoolVal(False), kind='no_raise')
                    continue
                u.status = 'normal'
                for w in run_write(ex, fe, u, self_):
                    if w.status != 'return':
                        continue
                    g2 = w.ghost['file']
                    for (nm, f) in trees_equal(ex, w, g1, g2):
                        cx.oblige(w, 'update_equals_full_write/' + nm, f,
                                  kind='post')
    guarded(cx, 'Sampler.write_shell_update', body)
    fn_entry(fe, info, SQ + 'write_shell_update')


_cache = {}


def replay(r, tier, seed):
    from .common import run_runtime
    if 'rt' not in _cache:
        _cache['rt'] = run_runtime('check_c05.py', [3], timeout=1200)
    return _cache['rt']


def bounded(tier, seed):
    if tier != 'thorough':
        return []
    from .common import run_runtime
    rt = run_runtime('check_c05.py', [8], timeout=3000)
    viol = [dict(id='resume', **rt)] if rt.get('found') else []
    return [dict(name='C05/bounded/stop_resume',
                 what='bit-identical posterior / log_z / n_eff / n_like after '
                      'stop + resume from the file at 8 batch boundaries per '
                      'configuration (with network, with blobs, discard on/off),'
                      ' toggle history, removed first shell',
                 bound='2 scenarios x 2 x 8 stops', observed=rt.get('observed'),
                 error=rt.get('error'), violations=viol)]
