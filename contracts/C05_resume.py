"""C05: resume block of Sampler.__init__ and the run() write protocol."""
import ast
import z3

from pyvc.core import (State, Sym, Arr, Arr2, LArr, SList, PyList, ObjRec, Ref,
                       Opaque, ClassVal, fresh, fresh_fn, uid, I, B, sort_of,
                       OutsideSubset, Raised)
from pyvc import arrays as A
from pyvc import h5
from pyvc.npmodel import MaybeNone
from pyvc.symexec import Executor, LoopSpec, View, Lib, PyCallable
from pyvc.verify import values_equal, cells_equal, verify_block, short
from pyvc.frontend import loops_of
from .common import fn_entry
from . import sampler_model as M
from .sampler_model import SQ, S


def select_resume_block(fnode):
    for n in ast.walk(fnode):
        if isinstance(n, ast.With) and 'h5py.File' in ast.unparse(
                n.items[0].context_expr):
            return n.body
    return []


def fresh_sampler_object(ex, st, s0):
    """the object as the first part of __init__ leaves it (lines 305-327 of
    sampler.py): empty run state, the constructor's configuration"""
    old = st.cell(s0)
    f = {}
    for k in ('n_dim', 'n_live', 'n_update', 'n_like_new_bound', 'n_batch',
              'n_points_min', 'n_networks', 'enlarge_per_dim',
              'split_threshold', 'periodic', 'neural_network_kwargs',
              'vectorized', 'pass_dict', 'prior', 'likelihood', 'pool_l',
              'pool_s', 'filepath'):
        f[k] = old.fields[k]
    f['rng'] = Opaque('rng')
    f['n_like'] = 0
    f['explored'] = False
    f['bounds'] = st.alloc(PyList(), 'bounds')
    f['points'] = st.alloc(PyList(), 'points')
    f['log_l'] = st.alloc(PyList(), 'log_l')
    f['blobs'] = None
    f['blobs_dtype'] = MaybeNone(z3.Bool(uid('ctor_blobs_dtype_none')),
                                 Opaque('dtype'))
    f['_discard_exploration'] = False
    for nm, k in (('shell_n', 'int'), ('shell_n_sample', 'int'),
                  ('shell_n_eff', 'real'), ('shell_log_l_min', 'real'),
                  ('shell_log_l', 'real'), ('shell_log_v', 'real'),
                  ('shell_n_sample_exp', 'int'), ('shell_end_exp', 'int'),
                  ('shell_t', 'int'), ('log_l_t', 'real')):
        f[nm] = st.alloc(A.const_arr(0, 0 if k == 'int' else 0.0, k), nm)
    f['points_t'] = st.alloc(A.fresh_arr(st, 'Pt', 'points_t0', n=0), 'pt0')
    f['blobs_t'] = None
    return st.alloc(ObjRec('Sampler', f), 'resumed')


def as_larr(ex, st, v, k):
    d = ex.deref(st, v) if isinstance(v, Ref) else v
    if isinstance(d, LArr):
        return d
    if isinstance(d, PyList):
        items = [ex.deref(st, x) for x in d.items]
        L = LArr(0, lambda i: z3.IntVal(0), lambda i, j: z3.Const(
            'nothing_' + k, A.sort_of(k)), k)
        for a in items:
            L = A.larr_append(L, a)
        return L
    return None


def unit_resume(cx, fe, info, ex, G):
    from .C05 import (make_env, run_write, guarded, TB, TB_bound, TB_state,
                      RNG_COMPONENT, rng_ver)
    fs = fe.get(SQ + '__init__')

    def body():
        st = State()
        s0 = make_env(ex, st)
        ver0 = rng_ver(st)
        # a checkpoint is only ever written by run() after the first bound
        # exists (protocol unit): the file describes at least one shell
        st.env = dict(self=s0)
        st.assume(View(ex, st)('self.bounds').n >= 1)
        for o in run_write(ex, fe, st, s0):
            if o.status != 'return':
                continue
            o.status = 'normal'
            root = o.ghost['file']
            s1 = fresh_sampler_object(ex, o, s0)
            ss0 = M.sstate(o)
            # the bounds of the resumed sampler start with unknown proposal
            # state: whatever they have comes from the file
            o.ghost['sstate'] = z3.Array(uid('sstate_resumed'), M.Bound,
                                         z3.IntSort())
            o.env = dict(self=s1, fstream=root,
                         filepath=Opaque('sink:pathlike'))
            stmts = select_resume_block(fs.node)
            if not stmts:
                raise OutsideSubset('resume block not found')
            saved = (ex.cur_fn, ex.loop_specs, ex.loop_ord)
            ex.cur_fn = fs
            ex.alias = ex.fe.local_aliases(fs.qualname)
            allloops = loops_of(fs.node)
            ex.loop_ord = {id(n): k for k, n in enumerate(allloops)}
            inblock = [n for n in allloops if any(
                n in list(ast.walk(s)) for s in stmts)]
            specs = resume_loops(ex, s0, s1, ss0, inblock, ex.loop_ord)
            ex.loop_specs = specs
            try:
                outs = ex.exec_block(stmts, [o])
            finally:
                ex.cur_fn, ex.loop_specs, ex.loop_ord = saved
            for r in outs:
                if r.status not in ('normal', 'return'):
                    cx.oblige(r, 'resume_does_not_raise/{}'.format(r.exc),
                              z3.BoolVal(False), kind='no_raise')
                    continue
                cx.cover(r, 'exit_reachable/' + '.'.join(r.trace[-5:]))
                a, b = r.cell(s0), r.cell(s1)
                for f in ('n_like', 'explored', '_discard_exploration',
                          'shell_n', 'shell_n_sample', 'shell_n_eff',
                          'shell_log_l_min', 'shell_log_l', 'shell_log_v',
                          'shell_n_sample_exp', 'shell_end_exp',
                          'n_update_iter', 'n_like_iter', 'points_t',
                          'shell_t', 'log_l_t'):
                    if f not in b.fields:
                        cx.oblige(r, 'restored/' + f, z3.BoolVal(False),
                                  kind='post')
                        continue
                    e = values_equal(ex, r, a.fields[f], r, b.fields[f])
                    cx.oblige(r, 'restored/' + f, z3.BoolVal(True)
                              if e is None else e, kind='post')
                for f, k in (('points', 'Pt'), ('log_l', 'real')):
                    La = ex.deref(r, a.fields[f])
                    Lb = as_larr(ex, r, b.fields[f], k)
                    cx.oblige(r, 'restored/' + f, cells_equal(
                        ex, r, La, r, Lb), kind='post')
                bn, bl = M.blobs_of(View(ex, _env(r, s0)))
                bv = b.fields['blobs']
                if isinstance(bv, MaybeNone):
                    Lb = as_larr(ex, r, bv.val, 'Blob')
                    cx.oblige(r, 'restored/blobs', z3.And(
                        bv.isnone == bn, z3.Implies(z3.Not(bn), cells_equal(
                            ex, r, bl, r, Lb))), kind='post')
                elif bv is None:
                    cx.oblige(r, 'restored/blobs', bn, kind='post')
                else:
                    Lb = as_larr(ex, r, bv, 'Blob')
                    cx.oblige(r, 'restored/blobs', z3.And(
                        z3.Not(bn), cells_equal(ex, r, bl, r, Lb)),
                        kind='post')
                # the dtype of the blobs is run state as well: add_bound
                # allocates the blob array of a new shell from it
                dt = b.fields.get('blobs_dtype', 'missing')
                dtn = dt.isnone if isinstance(dt, MaybeNone) else z3.BoolVal(
                    dt is None or dt == 'missing')
                cx.oblige(r, 'restored/blobs_dtype_known_when_blobs_exist',
                          z3.Implies(z3.Not(bn), z3.Not(dtn)), kind='post')
                # bounds: same objects, same order, same proposal state, one
                # shared generator (call_pre obligations)
                Ba = ex.deref(r, a.fields['bounds'])
                Bb = ex.deref(r, b.fields['bounds'])
                if isinstance(Bb, PyList):
                    Bb = SList(len(Bb.items), lambda i, its=Bb.items: (
                        its[0].t if len(its) == 1 else z3.If(
                            i == 0, its[0].t, its[-1].t)), 'Bound')
                ss1 = M.sstate(r)
                cx.oblige(r, 'restored/bounds', z3.And(
                    Bb.n == Ba.n, A.forall_idx(Ba.n, lambda t: z3.And(
                        Bb.at(t) == Ba.at(t),
                        z3.Select(ss1, Ba.at(t)) ==
                        z3.Select(ss0, Ba.at(t))))), kind='post')
                rr = r.ghost.get('rng_restored')
                if rr is None:
                    cx.oblige(r, 'restored/generator_state', z3.BoolVal(False),
                              kind='post')
                else:
                    cx.oblige(r, 'restored/generator_state', z3.And(*[
                        rr[i].t == RNG_COMPONENT(ver0, z3.IntVal(i))
                        for i in range(4)]), kind='post')
    guarded(cx, 'Sampler.__init__[resume]', body)
    fn_entry(fe, info, SQ + '__init__', status='block: body of `with '
             'h5py.File(filepath, "r")`')


def _env(st, self_):
    st.env = dict(self=self_)
    return st


def resume_loops(ex, s0, s1, ss0, inblock, loop_ord):
    """invariants of the two symbolic loops of the resume block"""
    from .C05 import TB
    specs = {}
    sym = [n for n in inblock if not (isinstance(n.iter, ast.List))]
    # first symbolic loop: shells; second: bounds 1..n-1
    shell_loop, bound_loop = sym[0], sym[1]
    k_shell, k_bound = loop_ord[id(shell_loop)], loop_ord[id(bound_loop)]

    def prep_shell(ex_, st):
        rec = st.cell(s1)
        for f, k in (('points', 'Pt'), ('log_l', 'real')):
            v = rec.fields[f]
            if isinstance(v, Ref) and isinstance(st.cell(v), PyList):
                st.set_cell(v, as_larr(ex_, st, v, k))
        # blobs: None until the first shell with a blobs dataset is read
        rec.fields['blobs'] = MaybeNone(z3.BoolVal(True), st.alloc(
            LArr(0, lambda i: z3.IntVal(0), lambda i, j: z3.Const(
                'nothing_Blob', A.sort_of('Blob')), 'Blob'), 'blobs_r'))

    def inv_shell(V):
        st = V.st
        kk = V.k(k_shell)
        a, b = st.cell(s0), st.cell(s1)
        out = []
        for f, k in (('points', 'Pt'), ('log_l', 'real')):
            La = ex.deref(st, a.fields[f])
            Lb = as_larr(ex, st, b.fields[f], k)
            i, j = A.qi('i'), A.qi('j')
            out.append(('shells_read/' + f, z3.And(
                Lb.n == kk, A.forall_idx(kk, lambda t: Lb.alen(t) ==
                                         La.alen(t)),
                z3.ForAll([i, j], z3.Implies(
                    z3.And(i >= 0, i < kk, j >= 0, j < La.alen(i)),
                    Lb.at(i, j) == La.at(i, j))))))
        st0 = st.copy()
        st0.env = dict(self=s0)
        bn, bl = M.blobs_of(View(ex, st0))
        bv = b.fields['blobs']
        if isinstance(bv, MaybeNone):
            Lb = as_larr(ex, st, bv.val, 'Blob')
            none_now = bv.isnone
        elif bv is None:
            Lb, none_now = None, z3.BoolVal(True)
        else:
            Lb, none_now = as_larr(ex, st, bv, 'Blob'), z3.BoolVal(False)
        if Lb is not None and bl is not None:
            i, j = A.qi('i'), A.qi('j')
            out.append(('shells_read/blobs', z3.And(
                none_now == z3.Or(bn, kk == 0),
                z3.Implies(z3.Not(none_now), z3.And(
                    Lb.n == kk, A.forall_idx(
                        kk, lambda t: Lb.alen(t) == bl.alen(t)),
                    z3.ForAll([i, j], z3.Implies(
                        z3.And(i >= 0, i < kk, j >= 0, j < bl.alen(i)),
                        Lb.at(i, j) == bl.at(i, j))))))))
            dt = b.fields.get('blobs_dtype')
            dtn = dt.isnone if isinstance(dt, MaybeNone) else z3.BoolVal(
                dt is None)
            out.append(('shells_read/blobs_dtype', z3.Implies(
                z3.Not(none_now), z3.Not(dtn))))
        return out
    specs[k_shell] = LoopSpec(inv=inv_shell, prepare=prep_shell)

    def prep_bound(ex_, st):
        rec = st.cell(s1)
        v = rec.fields['bounds']
        d = st.cell(v)
        if isinstance(d, PyList):
            items = [x.t for x in d.items]
            st.ghost['n_bounds_before_loop'] = len(items)
            dummy = z3.Const('no_bound', A.sort_of('Bound'))
            st.set_cell(v, SList(len(items), lambda i, items=items: (
                items[0] if items else dummy), 'Bound'))

    def inv_bound(V):
        st = V.st
        kk = V.k(k_bound)
        a, b = st.cell(s0), st.cell(s1)
        Ba = ex.deref(st, a.fields['bounds'])
        Bb = ex.deref(st, b.fields['bounds'])
        ss1 = M.sstate(st)
        n0 = st.ghost.get('n_bounds_before_loop', 0)
        return [('bounds_read', z3.And(Bb.n == n0 + kk, A.forall_idx(
            n0 + kk, lambda t: z3.And(
                Bb.at(t) == Ba.at(t),
                z3.Select(ss1, Ba.at(t)) == z3.Select(ss0, Ba.at(t))))))]
    specs[k_bound] = LoopSpec(inv=inv_bound, prepare=prep_bound,
                              extra_mods=['$sstate'])
    return specs


def unit_protocol(cx, fe, info):
    """run(): every state-changing step is followed, within the same loop
    iteration and under `self.filepath is not None`, by the matching write
    (syntactic call-order obligations on the real AST of run())."""
    fs = fe.get(SQ + 'run')
    st = State()
    cx.prefix = 'Sampler.run/protocol/'
    loop = [n for n in ast.walk(fs.node) if isinstance(n, ast.While)][0]

    def calls(stmts):
        out = []
        for s in stmts:
            for n in ast.walk(s):
                if isinstance(n, ast.Call):
                    out.append(ast.unparse(n.func) + '(' + ', '.join(
                        ast.unparse(a) for a in n.args[:1] if ast.unparse(
                            a) != 'self.filepath') + ')')
        return out

    def followed(stmts, step, write):
        """in the statement list, after the statement containing `step` there
        is an `if self.filepath is not None:` block containing `write`"""
        seen = False
        for s in stmts:
            src = ast.unparse(s)
            if not seen and step in src:
                seen = True
                if isinstance(s, ast.If) and 'self.filepath is not None' not \
                        in ast.unparse(s.test):
                    # step inside a branch: the write must be in the same
                    # branch after it
                    return followed(s.body, step, write)
                continue
            if seen and isinstance(s, ast.If) and ast.unparse(s.test) == \
                    'self.filepath is not None' and write in src:
                return True
        return False
    expl = [n for n in loop.body if isinstance(n, ast.If) and ast.unparse(
        n.test) == 'not self.explored'][0]
    checks = [
        ('bound_insertion_is_followed_by_a_full_write',
         followed(expl.body, 'self.add_bound(', 'self.write(self.filepath')),
        ('exploration_batch_is_followed_by_an_update',
         followed(expl.body, 'self.add_samples(-1',
                  'self.write_shell_update(self.filepath, -1)')),
        ('end_of_exploration_is_followed_by_a_full_write',
         followed(expl.body, 'self.explored = True',
                  'self.write(self.filepath')),
    ]
    n_branch = 0
    for br in expl.orelse + [x for n in expl.orelse if isinstance(n, ast.If)
                             for x in n.orelse]:
        if not isinstance(br, ast.If):
            continue
        # the shell handed to add_samples in this branch (whatever the local
        # is called) must be the shell handed to write_shell_update
        arg = None
        for n in ast.walk(ast.Module(body=br.body, type_ignores=[])):
            if isinstance(n, ast.Call) and ast.unparse(n.func) == \
                    'self.add_samples' and n.args:
                arg = ast.unparse(n.args[0])
        if arg is None or arg == '-1':
            continue
        n_branch += 1
        checks.append(('sampling_batch_{}_is_followed_by_an_update_of_'
                       'the_same_shell'.format(n_branch),
                       followed(br.body, 'self.add_samples(' + arg,
                                'self.write_shell_update(self.filepath, ' +
                                arg + ')')))
    checks.append(('both_sampling_branches_found', n_branch == 2))
    # no local of run() carries state across iterations except the loop guard
    # `success`: every other local assigned in the loop is assigned before it
    # is read within the same iteration
    guard_names = {n.id for n in ast.walk(loop.test)
                   if isinstance(n, ast.Name)}
    carried = []
    first = {}

    def names(node, ctx):
        return [n.id for n in ast.walk(node) if isinstance(n, ast.Name) and
                isinstance(n.ctx, ctx)]

    def visit(stmts):
        # evaluation order: the loads of a statement happen before its stores
        for st_ in stmts:
            if isinstance(st_, (ast.If, ast.While)):
                for nm in names(st_.test, ast.Load):
                    first.setdefault(nm, 'Load')
                visit(st_.body)
                visit(st_.orelse)
            elif isinstance(st_, ast.For):
                for nm in names(st_.iter, ast.Load):
                    first.setdefault(nm, 'Load')
                for nm in names(st_.target, ast.Store):
                    first.setdefault(nm, 'Store')
                visit(st_.body)
                visit(st_.orelse)
            elif isinstance(st_, ast.With):
                for it in st_.items:
                    for nm in names(it.context_expr, ast.Load):
                        first.setdefault(nm, 'Load')
                    if it.optional_vars is not None:
                        for nm in names(it.optional_vars, ast.Store):
                            first.setdefault(nm, 'Store')
                visit(st_.body)
            elif isinstance(st_, ast.Try):
                visit(st_.body)
                for h in st_.handlers:
                    visit(h.body)
                visit(st_.orelse)
                visit(st_.finalbody)
            else:
                if isinstance(st_, ast.AugAssign):
                    for nm in names(st_.target, ast.Store):
                        first.setdefault(nm, 'Load')   # x += 1 reads x first
                for nm in names(st_, ast.Load):
                    first.setdefault(nm, 'Load')
                for nm in names(st_, ast.Store):
                    first.setdefault(nm, 'Store')
    visit(loop.body)
    stored = {n.id for n in ast.walk(ast.Module(body=loop.body,
                                                 type_ignores=[]))
              if isinstance(n, ast.Name) and isinstance(n.ctx, ast.Store)}
    comp_vars = set()
    for n in ast.walk(ast.Module(body=loop.body, type_ignores=[])):
        if isinstance(n, ast.comprehension):
            for t in ast.walk(n.target):
                if isinstance(t, ast.Name):
                    comp_vars.add(t.id)      # scoped to the comprehension
    for nm in sorted(stored - guard_names - comp_vars):
        # `x = f(x)` reads before it stores although the Store node comes
        # first in the source: compare with the first Load on the same line
        if first.get(nm) != 'Store':
            carried.append(nm)
    checks.append(('no_run_state_in_locals', not carried))
    detail_carried = carried
    for nm, ok in checks:
        cx.oblige(st, nm, z3.BoolVal(bool(ok)), kind='effect')
    cx.prefix = ''
    fn_entry(fe, info, SQ + 'run', status='protocol (call order) obligations')
