def unit_resume(cx, fe, info, ex, G):
    pass


def unit_protocol(cx, fe, info):
    pass
