"""C05: the checkpoint file is in sync with the sampler at every loop boundary of
run() (and at its return), and a checkpoint written right before a batch is
re-entrant.

Ghost state, carried through the symbolic execution of the real run():
  dirty[f]   (z3 Bool per persistent field f): f was assigned since the last
             write that covers it
  touched    shell arguments of the add_samples calls since the last write
  pending    the bound-insertion condition evaluated in the state of the last
             full write of this iteration

Events (all on the real AST of run(), with the contracts of C01):
  self.f = ... / setattr(self, f, ...)      dirty[f] := True
  add_bound / add_samples / discard setter   dirty[g] := True for g in the
                                             callee's modifies clause
  write(filepath)                            all clean; pending := condition
  write_shell_update(filepath, shell)        OBLIGATION: nothing outside the set
                                             M proved equivalent to a full write
                                             (unit update_equals_write) is dirty,
                                             and every touched shell == shell;
                                             then M is clean
  add_samples with pending set               OBLIGATION: not pending (re-entering
                                             the loop from that checkpoint
                                             repeats no step before the batch)
  loop head / iteration end / return         INVARIANT: n_like > 0 or explored -> all clean
"""
import ast
import z3

from pyvc.core import Ref, ObjRec, I, B, Sym
from pyvc.symexec import View

DERIVED_ON_RESUME = {'blobs_dtype'}    # recomputed from the stored blobs


class Sync:
    def __init__(self, fe, qual_run, covered_by_update):
        self.M = set(covered_by_update)
        fs = fe.get(qual_run)
        self.cond = None
        for n in ast.walk(fs.node):
            if isinstance(n, ast.If) and any(
                    isinstance(c, ast.Call) and ast.unparse(c.func) ==
                    'self.add_bound' for s in n.body for c in ast.walk(s)) \
                    and 'n_update_iter' in ast.unparse(n.test):
                self.cond = n.test
        self.P = ()

    # ---- ghost helpers
    def dirty(self, st):
        if 'dirty' not in st.ghost:
            st.ghost['dirty'] = {f: z3.BoolVal(False) for f in self.P}
        return st.ghost['dirty']

    def mark(self, st, fields):
        d = dict(self.dirty(st))
        for f in fields:
            if f in d:
                d[f] = z3.BoolVal(True)
        st.ghost['dirty'] = d

    def clean(self, st, fields=None):
        d = dict(self.dirty(st))
        for f in (fields if fields is not None else list(d)):
            if f in d:
                d[f] = z3.BoolVal(False)
        st.ghost['dirty'] = d
        st.ghost['touched'] = ()

    def havoc(self, ex, st):
        from pyvc.core import uid
        st.ghost['dirty'] = {f: z3.Bool(uid('dirty_' + f)) for f in self.P}
        st.ghost['touched'] = ()
        st.ghost['pending'] = None

    def in_sync(self, V, tag):
        d = self.dirty(V.st)
        # before the first batch of a new sampler there is no file yet
        started = z3.Or(V.int('self.n_like') > 0, V.bool('self.explored'))
        return [('K_{}/{}'.format(tag, f), z3.Implies(started, z3.Not(d[f])))
                for f in sorted(d)]

    # ---- installation into a registry holding the Sampler contracts of C01
    def install(self, reg, ex, c):
        run = c['run']
        self.P = tuple(sorted(set(run.mod_fields) - DERIVED_ON_RESUME))
        reg.ghost_havoc['dirty'] = self.havoc
        prev = reg.setattr_hook

        def setattr_hook(ex_, st, o, attr, v, node):
            if isinstance(o, Ref) and isinstance(st.cell(o), ObjRec) and \
                    st.cell(o).cls == 'Sampler':
                self.mark(st, [attr])
            if prev is not None:
                return prev(ex_, st, o, attr, v, node)
            return False
        reg.setattr_hook = setattr_hook

        def wrap_effects(k, extra_pre=None):
            con = c[k]
            orig_res, orig_pre = con.result, con.pre

            def result(ex_, st, V):
                r = orig_res(ex_, st, V)
                self.mark(st, con.mod_fields)
                if k == 'add_samples':
                    st.ghost['touched'] = st.ghost.get('touched', ()) + (
                        I(V.raw('shell')),)
                return r
            con.result = result
            if extra_pre is not None:
                con.pre = lambda V: orig_pre(V) + extra_pre(V)
        wrap_effects('add_bound')
        wrap_effects('setter')

        def pre_batch(V):
            p = V.st.ghost.get('pending')
            V.st.ghost['pending'] = None
            if p is None:
                return []
            return [('K_checkpoint_before_a_batch_is_reentrant', z3.Not(p))]
        wrap_effects('add_samples', pre_batch)

        w = c['write']
        w_res, w_pre = w.result, w.pre

        def w_pre2(V):
            out = w_pre(V)
            # the guard of the bound-insertion branch, in the written state
            st = V.st
            val = ex.truth(st, ex.eval(self.cond, st)) if self.cond is not \
                None else None
            st.ghost['pending'] = B(val) if val is not None else None
            return out

        def w_res2(ex_, st, V):
            r = w_res(ex_, st, V)
            self.clean(st)
            return r
        w.pre, w.result = w_pre2, w_res2

        u = c['write_shell_update']
        u_res, u_pre = u.result, u.pre

        def u_pre2(V):
            d = self.dirty(V.st)
            sh = V.int('shell')
            out = u_pre(V)
            for f in sorted(d):
                if f not in self.M:
                    out.append(('K_update_covers_every_unsaved_field/' + f,
                                z3.Not(d[f])))
            out.append(('K_update_is_for_the_sampled_shell', z3.And(*[
                t == sh for t in V.st.ghost.get('touched', ())])))
            return out

        def u_res2(ex_, st, V):
            r = u_res(ex_, st, V)
            self.clean(st, self.M)
            return r
        u.pre, u.result = u_pre2, u_res2

        # ---- run(): invariant of the main loop, post at return
        spec = run.loops[0]
        inv0 = spec.inv
        spec.inv = lambda V: inv0(V) + self.in_sync(V, 'file_in_sync')
        spec.extra_mods = tuple(spec.extra_mods) + ('$dirty',)
        run.mod_ghost = tuple(run.mod_ghost) + ('dirty',)
        post0, pre0 = run.post, run.pre

        def pre_sync(V):
            return pre0(V) + [
                ('thresholds_positive', z3.And(
                    V.int('self.n_update') >= 1,
                    V.int('self.n_like_new_bound') >= 1)),
                ('fresh_sampler_has_no_likelihood_calls', z3.Implies(
                    V('self.bounds').n == 0, z3.And(
                        V.int('self.n_like') == 0,
                        z3.Not(V.bool('self.explored')))))]
        run.pre = pre_sync
        run.post = lambda Vo, Vn, res: post0(Vo, Vn, res) + self.in_sync(
            Vn, 'file_in_sync_at_return')
