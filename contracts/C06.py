"""C06 - a kill at any instant leaves an atomic, loadable checkpoint.

The real bodies of Sampler.write and Sampler.write_shell_update are executed
over a ghost file system (pyvc/fs.py). After every file-system event (and
therefore at every instant, since non-atomic primitives turn the file TORN as
their first effect) the checkpoint path must hold either the complete state it
held at entry or the complete new state, and must not be absent if it existed.
"""
import ast
import z3

from pyvc.core import (State, Sym, Opaque, fresh, uid, I, B, OutsideSubset)
from pyvc import fs
from pyvc.symexec import Executor, View
from .common import new_registry, fn_entry
from . import sampler_model as M
from . import C05 as C5
from .sampler_model import SQ, S

OBLIGATION_FLOOR = 6
Z3_TIMEOUT_MS = 20000
UNITS = ['write[exists]', 'write[absent]', 'write_shell_update', 'static']
BRANCH_COVERED_FUNCTIONS = ()
DEAD_BRANCHES = ()
_EX = {}


def _branch_cov():
    return []


def _branch_all():
    return []


def make_ex(cx, fe, initial):
    reg = new_registry(fe)
    M.install_bound_api(reg, cx)
    M.install_sampler_hooks(reg)
    G = {}
    C5.install(reg, G)
    reg.h5_havoc = C5.h5_havoc
    fs.install(reg, initial)
    return Executor(cx, fe, reg)


def build(cx, fe, tier, info, only=None):
    for unit, initial in (('write[exists]', fs.OLD), ('write[absent]',
                                                      fs.ABSENT)):
        if only not in (None, unit):
            continue
        ex = make_ex(cx, fe, initial)

        def body(ex=ex, initial=initial):
            st = State()
            self_ = C5.make_env(ex, st)
            st.ghost['disk'] = {'P': initial}
            st.ghost['disk_initial'] = initial
            st.env = dict(self=self_, filepath=fs.PathVal('P'), overwrite=True)
            outs = ex.run_function(fe.get(SQ + 'write'), st, C5.write_loops())
            for o in outs:
                if o.status != 'return':
                    # documented errors are raised before any file effect
                    cx.oblige(o, 'raise_before_any_effect', z3.BoolVal(
                        not o.ghost.get('fs_events')), kind='crash')
                    continue
                cx.oblige(o, 'post_committed', z3.BoolVal(
                    fs.disk(o).get('P') == fs.NEW), kind='crash',
                    disk=str(fs.disk(o)))
                cx.oblige(o, 'no_file_left_open', z3.BoolVal(
                    o.ghost.get('open_owner') is None), kind='crash')
                cx.oblige(o, 'some_event_checked', z3.BoolVal(
                    len(o.ghost.get('fs_events', ())) >= 2), kind='crash')
        C5.guarded(cx, 'Sampler.' + unit, body)
        fn_entry(fe, info, SQ + 'write')
    if only in (None, 'write_shell_update'):
        ex = make_ex(cx, fe, fs.OLD)

        def body2(ex=ex):
            st = State()
            self_ = C5.make_env(ex, st)
            # the live file holds the complete previous state
            st.ghost['fs_silent'] = True
            st.ghost['disk'] = {'P': fs.ABSENT}
            for o in C5.run_write(ex, fe, st, self_):
                if o.status != 'return':
                    continue
                o.status = 'normal'
                o.ghost['disk'] = {'P': fs.OLD}
                o.ghost['disk_initial'] = fs.OLD
                o.ghost['fs_events'] = ()
                o.ghost['open_owner'] = None
                o.ghost['fs_silent'] = False
                V = View(ex, C5_env(o, self_))
                nb = S(V, 'bounds').n
                sh = fresh('int', 'shell')
                o.assume(z3.And(sh.t >= -nb, sh.t < nb, nb >= 1))
                o.env = dict(self=self_, filepath=fs.PathVal('P'), shell=sh)
                for u in ex.run_function(fe.get(SQ + 'write_shell_update'), o,
                                         None):
                    if u.status != 'return':
                        cx.oblige(u, 'does_not_raise/{}'.format(u.exc),
                                  z3.BoolVal(False), kind='no_raise')
                        continue
                    cx.oblige(u, 'post_committed', z3.BoolVal(
                        fs.disk(u).get('P') == fs.NEW), kind='crash',
                        disk=str(fs.disk(u)))
                    cx.oblige(u, 'no_file_left_open', z3.BoolVal(
                        u.ghost.get('open_owner') is None), kind='crash')
        C5.guarded(cx, 'Sampler.write_shell_update', body2)
        fn_entry(fe, info, SQ + 'write_shell_update')
    if only in (None, 'static'):
        static(cx, fe, info)
    info['assumptions'] = [
        'C06: os.replace (POSIX rename) and unlink are atomic; h5py touches '
        'only the file it opened; close() makes the file complete (process '
        'kill, not power loss: no fsync reasoning)',
        'C06: crash points are every file-system event of the two writers; '
        'instants inside a non-atomic primitive are covered by the TORN state '
        'set at its start',
    ]


def C5_env(st, self_):
    st.env = dict(self=self_)
    return st


def static(cx, fe, info):
    st = State()
    cx.prefix = 'static/'
    src = fe.module_src['nautilus.sampler']
    tree = ast.parse(src)
    opens = []
    for fn in ast.walk(tree):
        if isinstance(fn, ast.FunctionDef):
            for n in ast.walk(fn):
                if isinstance(n, ast.Call) and ast.unparse(n.func) == \
                        'h5py.File':
                    mode = ast.unparse(n.args[1]) if len(n.args) > 1 else "'r'"
                    opens.append((fn.name, ast.unparse(n.args[0]), mode))
    ro = [o for o in opens if o[0] == '__init__']
    cx.oblige(st, 'resume_reads_only_the_checkpoint_path', z3.BoolVal(
        len(ro) == 1 and ro[0][1] == 'filepath' and ro[0][2] == "'r'"),
        kind='effect', detail=str(ro))
    writers = sorted(set(o[0] for o in opens if o[2] != "'r'"))
    cx.oblige(st, 'only_the_two_writers_open_files_for_writing', z3.BoolVal(
        writers == ['write', 'write_shell_update']), kind='effect',
        detail=str(writers))
    # nothing but the two writers renames, removes, copies or creates files:
    # in particular resuming never "repairs" the checkpoint from a leftover
    # temporary file
    MUTATORS = {'replace', 'rename', 'remove', 'unlink', 'rmdir', 'move',
                'copy', 'copy2', 'copyfile', 'copytree', 'rmtree', 'mkstemp',
                'mkdtemp', 'NamedTemporaryFile', 'TemporaryFile', 'touch',
                'write_bytes', 'write_text', 'truncate', 'symlink', 'link',
                'open', 'makedirs', 'mkdir'}
    PATH_ONLY = {'unlink', 'touch', 'write_bytes', 'write_text', 'rmdir',
                 'symlink_to', 'hardlink_to', 'rename'}
    others = []
    for mod, msrc in fe.module_src.items():
        mtree = ast.parse(msrc)
        for fn in ast.walk(mtree):
            if not isinstance(fn, ast.FunctionDef):
                continue
            if mod == 'nautilus.sampler' and fn.name in (
                    'write', 'write_shell_update'):
                continue
            for n in ast.walk(fn):
                if not isinstance(n, ast.Call):
                    continue
                f = n.func
                hit = False
                if isinstance(f, ast.Name):
                    hit = f.id in MUTATORS - {'open'}
                    if f.id == 'open':
                        mode = ast.unparse(n.args[1]) if len(n.args) > 1 \
                            else "'r'"
                        hit = any(c in mode for c in 'wax+')
                elif isinstance(f, ast.Attribute):
                    base = ast.unparse(f.value)
                    if base in ('os', 'shutil', 'tempfile', 'os.path'):
                        hit = f.attr in MUTATORS
                    else:       # pathlib.Path methods
                        hit = f.attr in PATH_ONLY
                if hit:
                    others.append('{}.{}: {}'.format(
                        mod.split('.')[-1], fn.name, ast.unparse(f)))
    cx.oblige(st, 'only_the_two_writers_touch_the_file_system', z3.BoolVal(
        not others), kind='effect', detail=str(others))
    cx.prefix = ''


_cache = {}


def replay(r, tier, seed):
    """the counter-model is a crash point (event / source line); the runtime
    leg kills a child process before source lines of the two writers"""
    from .common import run_runtime
    if 'rt' not in _cache:
        rt = run_runtime('check_c06.py', [3], timeout=1200)
        if not rt.get('found'):
            # a checkpoint that mixes two states shows when the run is
            # resumed from the file on disk during a batch (kill-in-batch leg
            # shared with C05)
            rt2 = run_runtime('check_c05.py', [], timeout=1500)
            if rt2.get('found'):
                rt = rt2
        _cache['rt'] = rt
    return _cache['rt']


def bounded(tier, seed):
    if tier != 'thorough':
        return []
    from .common import run_runtime
    rt = run_runtime('check_c06.py', [1], timeout=3000)
    viol = [dict(id='crash', **rt)] if rt.get('found') else []
    return [dict(name='C06/bounded/line_kills',
                 what='child killed before every source line of write / '
                      'write_shell_update (2nd / 3rd invocation): checkpoint '
                      'exists, loads, is consistent, continues',
                 bound='every line, one configuration',
                 observed=rt.get('observed'), error=rt.get('error'),
                 violations=viol)]
