"""C07 - bounds are sound: samples lie inside, construction points are enclosed.

Each concrete class is shown to implement the abstract bound API used by the
Sampler proofs (C01): every row returned by sample() satisfies contains() of
the same object (and lies in the unit cube where the bound is restricted to
it); a neural / nautilus bound never contains a point outside its outer bound.

Units
  UnitCube            contains / sample (coordinates, real AST)
  Union               contains = any-of members AND cube; sample: cache
                      invariant + loop invariant (members abstract)
  NeuralBound         contains is a subset of the outer ellipsoid
  NautilusBound       contains subset of outer union; sample (serial and pool
                      path) returns rows that contains() accepts, inside the
                      cube; uses the shift inverse law proved in C16
  Ellipsoid           contains / sample over an abstract vector algebra;
                      compute encloses its construction points
"""
import ast
import z3

from pyvc.core import (State, Sym, Arr, Arr2, LArr, SList, PyList, ObjRec, Ref,
                       Opaque, ClassVal, fresh, fresh_fn, uid, I, B, sort_of,
                       OutsideSubset, Raised)
from pyvc import arrays as A
from pyvc.npmodel import MaybeNone
from pyvc.registry import FnContract
from pyvc.symexec import Executor, LoopSpec, View, Lib, PyCallable, BoundMethod
from pyvc.verify import verify_function
from .common import new_registry, fn_entry, forall2
from . import union_model as U
from .union_model import Cm, incube

OBLIGATION_FLOOR = 40
Z3_TIMEOUT_MS = 40000
UNITS = ['UnitCube', 'Union', 'NeuralBound', 'NautilusBound', 'Ellipsoid',
         'Mixture', 'Union.restructure', 'NautilusBound.compute',
         'NautilusBound.worker']
BRANCH_COVERED_FUNCTIONS = ()
DEAD_BRANCHES = ()
_EX = {}


def _branch_cov():
    return _EX['ex'].branch_cov if 'ex' in _EX else []


def _branch_all():
    return _EX['ex'].branch_all if 'ex' in _EX else []


BQ = 'nautilus.bounds.'


# ---------------------------------------------------------------------------
# UnitCube (coordinate level)

def unitcube_units(cx, fe, info):
    reg = new_registry(fe)

    def all_hook(ex, st, v, kw, node, is_all):
        if isinstance(v, Arr2) and is_all:
            c = A.qi('c')
            return st.alloc(Arr(v.nr, lambda r: z3.ForAll([c], z3.Implies(
                z3.And(c >= 0, c < v.nc), v.at(r, c))), 'bool'), 'allrow')
        raise OutsideSubset('np.all form', node)
    reg.all_hook = all_hook
    ex = Executor(cx, fe, reg)
    _EX['ex'] = ex
    G = {}

    def env_contains(ex_, st):
        nd = fresh('int', 'n_dim')
        st.assume(nd.t >= 1)
        pts = A.fresh_arr2(st, None, nd.t, 'points')
        G['points'] = pts
        self_ = st.alloc(ObjRec('UnitCube', dict(n_dim=nd, rng=Opaque('rng'))),
                         'self')
        return dict(self=self_, points=st.alloc(pts, 'points'))

    def post_contains(Vo, Vn, res):
        r = Vn.ex.deref(Vn.st, res)
        p = G['points']
        c = A.qi('c')
        return [('contains_is_membership_in_the_half_open_cube', z3.And(
            r.n == p.nr, A.forall_idx(p.nr, lambda i: r.at(i) == z3.ForAll(
                [c], z3.Implies(z3.And(c >= 0, c < p.nc), z3.And(
                    p.at(i, c) >= 0, p.at(i, c) < 1))))))]
    c1 = FnContract(BQ + 'basic.UnitCube.contains', params=['points'],
                    post=post_contains)
    verify_function(ex, BQ + 'basic.UnitCube.contains', c1, env_contains)
    fn_entry(fe, info, BQ + 'basic.UnitCube.contains')

    def env_sample(ex_, st):
        nd = fresh('int', 'n_dim')
        st.assume(nd.t >= 1)
        self_ = st.alloc(ObjRec('UnitCube', dict(n_dim=nd, rng=Opaque('rng'))),
                         'self')
        n = fresh('int', 'n_points')
        st.assume(n.t >= 0)
        return dict(self=self_, n_points=n, pool=None)

    def post_sample(Vo, Vn, res):
        r = Vn.ex.deref(Vn.st, res)
        return [('sample_shape', z3.And(r.nr == Vo.int('n_points'),
                                        r.nc == Vo.int('self.n_dim'))),
                ('every_sample_is_contained', forall2(
                    r.nr, r.nc, lambda i, c: z3.And(r.at(i, c) >= 0,
                                                    r.at(i, c) < 1)))]
    c2 = FnContract(BQ + 'basic.UnitCube.sample', params=['n_points', 'pool'],
                    defaults=dict(n_points=100, pool=None), post=post_sample,
                    mod_ghost=['rng'])
    verify_function(ex, BQ + 'basic.UnitCube.sample', c2, env_sample)
    fn_entry(fe, info, BQ + 'basic.UnitCube.sample')


# ---------------------------------------------------------------------------
# Union (members abstract)

def install_any_hook(reg, CF):
    """np.any([b.contains(points) for b in bounds], axis=0) over a symbolic
    list of membership masks"""
    def all_hook(ex, st, v, kw, node, is_all):
        if isinstance(v, LArr) and v.k == 'bool' and not is_all:
            ex.need(st)('any_over_nonempty_list', v.n >= 1)
            ln = v.alen(z3.IntVal(0))
            k = A.qi('k')
            return st.alloc(Arr(ln, lambda j: z3.Exists([k], z3.And(
                k >= 0, k < v.n, v.at(k, j))), 'bool'), 'anyrow')
        raise OutsideSubset('np.any/np.all form', node)
    reg.all_hook = all_hook


def union_units(cx, fe, info):
    from .C13_split import install_sample_theory
    reg = new_registry(fe)
    U.install_member_api(reg, cx)
    install_any_hook(reg, Cm)
    install_sample_theory(reg)
    ex = Executor(cx, fe, reg)
    _EX['ex'] = ex
    G = {}

    def cache_inv(V):
        """every cached proposal is inside some member and inside the cube if
        the union is restricted to it"""
        b = U.S(V, 'bounds')
        pts = U.S(V, 'points')
        cube = V.raw('self.cube')
        cn = cube.isnone if isinstance(cube, MaybeNone) else z3.BoolVal(
            cube is None)
        k = A.qi('k')
        return [('cache_rows_are_contained', A.forall_idx(
            pts.n, lambda j: z3.And(
                z3.Exists([k], z3.And(k >= 0, k < b.n, Cm(b.at(k),
                                                          pts.at(j)))),
                z3.Implies(z3.Not(cn), incube(pts.at(j))))))]

    def env_u(ex_, st):
        self_ = U.make_union(ex_, st, G)
        st.env = dict(self=self_)
        for (nm, f) in U.InvU(View(ex_, st)) + cache_inv(View(ex_, st)):
            st.assume(f)
        return self_

    # contains
    def env_c(ex_, st):
        self_ = env_u(ex_, st)
        pts = A.fresh_arr(st, 'Pt', 'probe')
        G['probe'] = pts
        return dict(self=self_, points=st.alloc(pts, 'probe'))

    def post_c(Vo, Vn, res):
        r = Vn.ex.deref(Vn.st, res)
        b = U.S(Vo, 'bounds')
        p = G['probe']
        cube = Vo.raw('self.cube')
        cn = cube.isnone if isinstance(cube, MaybeNone) else z3.BoolVal(
            cube is None)
        k = A.qi('k')
        return [('contains_is_any_member_and_cube', z3.And(
            r.n == p.n, A.forall_idx(p.n, lambda j: r.at(j) == z3.And(
                z3.Exists([k], z3.And(k >= 0, k < b.n, Cm(b.at(k), p.at(j)))),
                z3.Implies(z3.Not(cn), incube(p.at(j)))))))]
    cc = FnContract(BQ + 'union.Union.contains', params=['points'],
                    post=post_c)
    verify_function(ex, BQ + 'union.Union.contains', cc, env_c)
    fn_entry(fe, info, BQ + 'union.Union.contains')

    # sample
    def env_s(ex_, st):
        self_ = env_u(ex_, st)
        n = fresh('int', 'n_points')
        st.assume(n.t >= 0)
        return dict(self=self_, n_points=n)

    def post_s(Vo, Vn, res):
        r = Vn.ex.deref(Vn.st, res)
        b = U.S(Vo, 'bounds')
        cube = Vo.raw('self.cube')
        cn = cube.isnone if isinstance(cube, MaybeNone) else z3.BoolVal(
            cube is None)
        k = A.qi('k')
        out = [('sample_len', r.n == Vo.int('n_points')),
               ('every_sample_is_contained', A.forall_idx(
                   r.n, lambda j: z3.And(
                       z3.Exists([k], z3.And(k >= 0, k < b.n,
                                             Cm(b.at(k), r.at(j)))),
                       z3.Implies(z3.Not(cn), incube(r.at(j))))))]
        for (nm, f) in cache_inv(Vn):
            out.append((nm + '_after', f))
        return out

    def inv0(V):
        return cache_inv(V) + [('counters', z3.And(
            V.int('self.n_sample') >= 0, V.int('self.n_reject') >= 0))]
    cs = FnContract(BQ + 'union.Union.sample', params=['n_points'],
                    defaults=dict(n_points=100), post=post_s,
                    mod_fields=['points', 'n_sample', 'n_reject'],
                    mod_ghost=['rng'], loops={0: LoopSpec(inv=inv0)})
    verify_function(ex, BQ + 'union.Union.sample', cs, env_s)
    fn_entry(fe, info, BQ + 'union.Union.sample')


def build(cx, fe, tier, info, only=None):
    if only in (None, 'UnitCube'):
        unitcube_units(cx, fe, info)
    if only in (None, 'Union'):
        union_units(cx, fe, info)
    if only in (None, 'NeuralBound'):
        from .C07_nautilus import neural_units
        neural_units(cx, fe, info)
    if only in (None, 'NautilusBound'):
        from .C07_nautilus import nautilus_units
        nautilus_units(cx, fe, info)
    if only in (None, 'Ellipsoid'):
        from .C07_ellipsoid import ellipsoid_units
        ellipsoid_units(cx, fe, info)
    if only in (None, 'Mixture'):
        from .C07_mixture import mixture_units
        mixture_units(cx, fe, info)
    if only in (None, 'Union.restructure'):
        # split / trim leave no stale proposals behind: their contracts (shared
        # with C13) end with an empty cache, which is the cache invariant of
        # Union.sample above; and they keep every construction point in some
        # member (partition post of split)
        from . import C13
        keep = _EX.get('ex')
        for u in ('compute', 'trim', 'split'):
            info3 = dict(functions=[])
            C13.build(cx, fe, tier, info3, only=u)
            info['functions'] = info.get('functions', []) + \
                info3['functions']
        if keep is not None:
            _EX['ex'] = keep
    if only in (None, 'NautilusBound.worker'):
        from .C07_nautilus import worker_units
        worker_units(cx, fe, info)
    if only in (None, 'NautilusBound.compute'):
        from .C07_compute import compute_units
        compute_units(cx, fe, info)
    info['assumptions'] = [
        'C07: UnitCubeEllipsoidMixture: the laws of complementary column '
        'sets (cube part / ellipsoid part of a point) are axioms; its compute() '
        '(dimension selection loops) is bounded only',
        'C07: members of a Union implement member.sample(n) subset of '
        'member.contains (Ellipsoid / mixture: vector-algebra argument, see '
        'notes); emulator.predict is row-wise',
        'C07: the periodic shift is a bijection of the cube with '
        'shift(unshift(p)) = p (proved over the reals in C16)',
        'C07: rng.random returns values in [0, 1)',
    ]


_cache = {}


def replay(r, tier, seed):
    from .common import run_runtime
    if 'rt' not in _cache:
        _cache['rt'] = run_runtime('check_c07.py', ['quick'], timeout=1500)
    return _cache['rt']


def bounded(tier, seed):
    if tier != 'thorough':
        return []
    from .common import run_runtime
    rt = run_runtime('check_c07.py', ['full'], timeout=3000)
    viol = [dict(id='soundness', **rt)] if rt.get('found') else []
    return [dict(name='C07/bounded/real_bounds',
                 what='sample subset of contains (+ unit cube), construction '
                      'points enclosed before/after splits, neural/nautilus '
                      'subset of outer bound, serial and pool sampling, on '
                      'real objects: the UnitCubeEllipsoidMixture (no proof: '
                      'column projections outside the subset) and the '
                      'Ellipsoid/Union members',
                 bound='dims 2,3,5,8 x 4 clouds x 3 enlargements',
                 observed=rt.get('observed'), error=rt.get('error'),
                 violations=viol)]
