"""C07: NautilusBound.compute establishes the class invariant the sampling
proofs assume: the outer union is restricted to the unit cube, there is one
neural bound per ellipsoid (at least one), the periodic shift exists exactly
when periodic parameters were declared, the proposal cache is empty with zero
counters, and the generator is the one handed in."""
import ast
import z3

from pyvc.core import (State, Sym, Arr, SList, PyList, ObjRec, Ref, Opaque,
                       ClassVal, fresh, fresh_fn, uid, I, B, sort_of,
                       OutsideSubset)
from pyvc import arrays as A
from pyvc.npmodel import MaybeNone
from pyvc.registry import FnContract
from pyvc.symexec import Executor, LoopSpec, View, PyCallable
from pyvc.verify import verify_function
from .common import new_registry, fn_entry
from . import union_model as U
from . import C07_nautilus as N

BQ = 'nautilus.bounds.'
UNITF = z3.Function('restricted_to_unit_cube', N.UnionB, z3.BoolSort())
NMEMB = z3.Function('n_members', N.UnionB, z3.IntSort())
MEMB = z3.Function('member_of', N.UnionB, z3.IntSort(), U.Member)


def install(reg, G, fe):
    N.install_nautilus_theory(reg, G)
    U.install_member_api(reg, None) if False else None
    # real default of Union.compute(unit=...) taken from the source
    fs = fe.get(BQ + 'union.Union.compute')
    a = fs.node.args
    names = [x.arg for x in a.args]
    defaults = dict(zip(names[len(names) - len(a.defaults):], a.defaults))
    unit_default = ast.literal_eval(defaults['unit']) if 'unit' in defaults \
        else None

    def union_compute(ex, st, args, kw, node):
        unit = kw.get('unit', unit_default)
        if len(args) > 3:
            unit = args[3]
        if unit is None:
            raise OutsideSubset('Union.compute without a default for unit',
                                node)
        u = fresh('UnionB', 'union')
        st.assume(UNITF(u.t) == (B(unit) if isinstance(unit, Sym) else
                                 z3.BoolVal(bool(unit))))
        st.assume(NMEMB(u.t) >= 1)
        G.setdefault('union_rng', {})[str(u.t)] = kw.get('rng')
        G.setdefault('union_cls', {})[str(u.t)] = kw.get('bound_class')
        ex.reg.havoc_ghost(ex, st, 'rng')
        return u

    def neural_compute(ex, st, args, kw, node):
        nb = fresh('NeuralB', 'neural_bound')
        G.setdefault('neural_rng', []).append(kw.get('rng'))
        ex.reg.havoc_ghost(ex, st, 'rng')
        return nb

    def shift_compute(ex, st, args, kw, node):
        return Opaque('shift')
    prev = reg.getattr_hook

    def getattr_hook(ex, st, o, d, name, node):
        if isinstance(d, ClassVal) and name == 'compute':
            if d.name == 'Union':
                return PyCallable(union_compute)
            if d.name == 'NeuralBound':
                return PyCallable(neural_compute)
            if d.name == 'PhaseShift':
                return PyCallable(shift_compute)
        if isinstance(d, Sym) and d.k == 'UnionB':
            if name == 'bounds':
                n = NMEMB(d.t)
                return st.alloc(SList(n, lambda i, t=d.t: MEMB(t, i),
                                      'Member'), 'members')
            if name == 'log_v':
                # may draw proposals: abstract value, generator advances
                ex.reg.havoc_ghost(ex, st, 'rng')
                return fresh('real', 'union_log_v')
        if isinstance(d, Arr) and d.k == 'Pt' and name == 'shape':
            return (Sym(d.n, 'int'), Sym(G['n_dim'], 'int'))
        if prev is not None:
            return prev(ex, st, o, d, name, node)
        return NotImplemented
    reg.getattr_hook = getattr_hook
    for c in ('Union', 'NeuralBound', 'PhaseShift', 'Ellipsoid',
              'UnitCubeEllipsoidMixture'):
        reg.globals[c] = ClassVal(c)

    def restructure(ex, st, u, args, kw, node):
        # Union.split / Union.trim: mutate the union in place (C13), keep the
        # unit-cube restriction (their frames do not contain `cube`)
        ex.reg.havoc_ghost(ex, st, 'rng')
        return fresh('bool', 'restructured')
    reg.sort_methods[('UnionB', 'split')] = restructure
    reg.sort_methods[('UnionB', 'trim')] = restructure
    reg.method_effects.setdefault('split', dict(fields=[], ghost=['rng'],
                                                arg_cells=[]))
    reg.method_effects.setdefault('trim', dict(fields=[], ghost=['rng'],
                                               arg_cells=[]))

    def m_contains(ex, st, m, args, kw, node):
        p = ex.deref(st, args[0])
        return st.alloc(Arr(p.n, lambda j: U.Cm(m.t, p.at(j)), 'bool'), 'inm')
    reg.sort_methods[('Member', 'contains')] = m_contains
    reg.lib['np.random.default_rng'] = lambda e, s, a, k, n: Opaque(
        'rng_unseeded')


def compute_units(cx, fe, info):
    Q = BQ + 'nautilus.NautilusBound.compute'
    for periodic in (False, True):
        reg = new_registry(fe)
        G = {}
        install(reg, G, fe)
        ex = Executor(cx, fe, reg)

        def env(ex_, st, periodic=periodic, G=G):
            N.shift_axioms(st)
            G.clear()
            nd = z3.Int(uid('n_dim'))
            st.assume(nd >= 1)
            G['n_dim'] = nd
            pts = A.fresh_arr(st, 'Pt', 'points')
            ll = A.fresh_arr(st, 'real', 'log_l', n=pts.n)
            rng = Opaque('rng')
            G.update(rng=rng, periodic=periodic)
            return dict(
                cls=ClassVal('NautilusBound'), points=st.alloc(pts, 'points'),
                log_l=st.alloc(ll, 'log_l'),
                log_l_min=fresh('real', 'log_l_min'),
                log_v_target=fresh('real', 'log_v_target'),
                enlarge_per_dim=fresh('real', 'enlarge_per_dim'),
                n_points_min=fresh('int', 'n_points_min'),
                split_threshold=fresh('real', 'split_threshold'),
                periodic=st.alloc(A.fresh_arr(st, 'int', 'periodic'),
                                  'periodic') if periodic else None,
                n_networks=fresh('int', 'n_networks'),
                neural_network_kwargs=Opaque('sink:kwargs'),
                pool=Opaque('pool'), rng=rng)

        def prep_neural(ex_, st):
            b = st.env['bound']
            v = st.cell(b).fields['neural_bounds']
            d = st.cell(v)
            if isinstance(d, PyList) and not d.items:
                st.set_cell(v, SList(0, lambda i: z3.Const(
                    'no_neural', sort_of('NeuralB')), 'NeuralB'))

        def inv_neural(V):
            return [('one_neural_bound_per_ellipsoid_so_far',
                     V('bound.neural_bounds').n == V.k(1))]

        def post(Vo, Vn, res, G=G):
            st = Vn.st
            rec = st.cell(res)
            f = rec.fields
            ob = f.get('outer_bound')
            nbs = Vn.ex.deref(st, f['neural_bounds']) if 'neural_bounds' in f \
                else None
            pts = Vn.ex.deref(st, f['points']) if 'points' in f else None
            out = [('all_fields_defined', z3.BoolVal(all(
                k in f for k in ('n_dim', 'shift', 'neural_bounds',
                                 'outer_bound', 'rng', 'points', 'n_sample',
                                 'n_reject'))))]
            if isinstance(ob, Sym):
                out.append(('outer_bound_is_restricted_to_the_unit_cube',
                            UNITF(ob.t)))
                out.append(('outer_bound_holds_the_given_generator',
                            z3.BoolVal(G.get('union_rng', {}).get(
                                str(ob.t)) is G['rng'])))
            else:
                out.append(('outer_bound_is_a_union', z3.BoolVal(False)))
            if nbs is not None:
                out.append(('at_least_one_neural_bound', nbs.n >= 1))
            out.append(('neural_bounds_hold_the_given_generator', z3.BoolVal(
                all(r is G['rng'] for r in G.get('neural_rng', [])))))
            out.append(('shift_exists_iff_periodic_parameters_declared',
                        z3.BoolVal((f.get('shift', 'missing') is not None) ==
                                   bool(G['periodic']) and
                                   f.get('shift', 'missing') != 'missing')))
            if pts is not None:
                out.append(('no_proposals_no_counters', z3.And(
                    pts.n == 0, I(f['n_sample']) == 0,
                    I(f['n_reject']) == 0)))
            out.append(('generator_is_the_given_one', z3.BoolVal(
                f.get('rng') is G['rng'])))
            out.append(('dimension_stored', I(f['n_dim']) == G['n_dim']))
            return out
        c = FnContract(
            Q, params=['points', 'log_l', 'log_l_min', 'log_v_target',
                       'enlarge_per_dim', 'n_points_min', 'split_threshold',
                       'periodic', 'n_networks', 'neural_network_kwargs',
                       'pool', 'rng'], post=post, mod_ghost=['rng'],
            loops={0: LoopSpec(inv=None), 1: LoopSpec(
                inv=inv_neural, prepare=prep_neural), 2: LoopSpec(inv=None),
                3: LoopSpec(inv=None)})
        verify_function(ex, Q, c, env, frame_obj='none', check_frame=False,
                        tag='[periodic={}]'.format(periodic))
    fn_entry(fe, info, Q)
