"""C07: Ellipsoid over an abstract vector algebra.

Rows of a point array are elements of the sort Vec; matrices are elements of
Mat. The numpy idioms of nautilus/bounds/basic.py (einsum products, squared
row sums, row-wise scaling through [:, np.newaxis]) are mapped to the algebra's
operations; the algebra's laws (listed in `axioms`) are linear-algebra facts,
conformance-tested numerically, not proved.
"""
import ast
import z3

from pyvc.core import (State, Sym, Arr, ObjRec, Ref, Opaque, ClassVal, fresh,
                       fresh_fn, uid, I, B, sort_of, OutsideSubset)
from pyvc import arrays as A
from pyvc.arrays import zv
from pyvc.npmodel import f_sqrt, f_pow
from pyvc.registry import FnContract
from pyvc.symexec import Executor, LoopSpec, View, Lib, PyCallable
from pyvc.verify import verify_function, verify_block
from .common import new_registry, fn_entry

BQ = 'nautilus.bounds.basic.'
Vec = sort_of('Vec')
Mat = sort_of('Mat')
R = z3.RealSort()
MV = z3.Function('matvec', Mat, Vec, Vec)
vsub = z3.Function('vsub', Vec, Vec, Vec)
vadd = z3.Function('vadd', Vec, Vec, Vec)
vscale = z3.Function('vscale', Vec, R, Vec)
norm2 = z3.Function('norm2', Vec, R)
qf = z3.Function('quadratic_form', Mat, Vec, R)
mscale = z3.Function('mscale', Mat, R, Mat)
minv = z3.Function('inv', Mat, Mat)
chol = z3.Function('cholesky', Mat, Mat)
posdef = z3.Function('positive_definite', Mat, z3.BoolSort())


def axioms(st):
    v, c = z3.Const('v!q', Vec), z3.Const('c!q', Vec)
    M = z3.Const('M!q', Mat)
    s, t = z3.Real('s!q'), z3.Real('t!q')
    ax = [
        z3.ForAll([v, s], norm2(vscale(v, s)) == s * s * norm2(v)),
        z3.ForAll([v], norm2(v) >= 0),
        z3.ForAll([v, c], vsub(vadd(v, c), c) == v),
        z3.ForAll([M, v], z3.Implies(posdef(M), norm2(MV(minv(chol(M)), v))
                                     == qf(minv(M), v))),
        z3.ForAll([M, s], z3.Implies(s > 0, minv(mscale(M, s)) ==
                                     mscale(minv(M), 1 / s))),
        z3.ForAll([M, s], z3.Implies(z3.And(posdef(M), s > 0),
                                     posdef(mscale(M, s)))),
        z3.ForAll([M], z3.Implies(posdef(M), z3.And(
            posdef(minv(M)), minv(minv(M)) == M))),
        z3.ForAll([M, s, v], qf(mscale(M, s), v) == s * qf(M, v)),
        z3.ForAll([s], z3.Implies(s >= 0, z3.And(
            f_sqrt(s) >= 0, f_sqrt(s) * f_sqrt(s) == s))),
        z3.ForAll([s, t], z3.Implies(z3.And(s >= 0, s < 1, t > 0), z3.And(
            f_pow(s, t) >= 0, f_pow(s, t) < 1))),
    ]
    for a in ax:
        st.assume(a)


class VArr:
    """array of row vectors"""

    def __init__(self, n, fn, squared=False):
        self.n = n
        self.fn = fn
        self.squared = squared

    def at(self, i):
        return self.fn(i if z3.is_expr(i) else z3.IntVal(i))


def install(reg):
    def binop_hook(ex, st, op, a, b):
        if isinstance(a, VArr) and isinstance(b, Sym) and b.k == 'Vec':
            if isinstance(op, ast.Sub):
                return VArr(a.n, lambda i: vsub(a.at(i), b.t))
            if isinstance(op, ast.Add):
                return VArr(a.n, lambda i: vadd(a.at(i), b.t))
        if isinstance(a, VArr) and isinstance(op, ast.Pow):
            if b in (2, 2.0):
                return VArr(a.n, a.fn, squared=True)
        if isinstance(a, VArr) and isinstance(b, Arr) and b.tag == 'column':
            ex.need(st)('broadcast_rows', a.n == b.n)
            if isinstance(op, ast.Div):
                return VArr(a.n, lambda i: vscale(a.at(i), 1 / b.at(i)))
            if isinstance(op, ast.Mult):
                return VArr(a.n, lambda i: vscale(a.at(i), b.at(i)))
        if isinstance(a, Arr) and a.tag == 'column' and isinstance(
                op, ast.Pow) and isinstance(b, (Sym, float, int)):
            e = zv(b, 'real')
            return Arr(a.n, lambda i: f_pow(a.at(i), e), 'real', tag='column')
        if isinstance(a, Sym) and a.k == 'Mat':
            s = zv(b, 'real')
            if isinstance(op, ast.Div):
                return Sym(mscale(a.t, 1 / s), 'Mat')
            if isinstance(op, ast.Mult):
                return Sym(mscale(a.t, s), 'Mat')
        return NotImplemented
    reg.binop_hook = binop_hook

    def einsum(ex, st, args, kw, node):
        spec = args[0].replace(' ', '')
        ops = [ex.deref(st, x) for x in args[1:]]
        if spec == 'ij,...j' and isinstance(ops[0], Sym) and isinstance(
                ops[1], VArr):
            M, x = ops
            return VArr(x.n, lambda i: MV(M.t, x.at(i)))
        if spec == '...i,ij,...j' and isinstance(ops[1], Sym):
            x, M, y = ops
            return st.alloc(Arr(x.n, lambda i: qf(M.t, x.at(i)), 'real'), 'qf')
        raise OutsideSubset('einsum ' + spec, node)
    reg.lib['np.einsum'] = einsum

    def sum_axis(ex, st, v, kw, node):
        if isinstance(v, VArr) and v.squared:
            return st.alloc(Arr(v.n, lambda i: norm2(v.at(i)), 'real'), 'n2')
        raise OutsideSubset('np.sum axis form', node)
    reg.sum_axis_hook = sum_axis

    def normal(ex, st, args, kw, node):
        size = ex.deref(st, kw['size'])
        n = I(size[0])
        f = fresh_fn(['int'], 'Vec', 'gauss')
        # a Gaussian vector is non-zero with probability one
        i = A.qi('i')
        st.assume(z3.ForAll([i], norm2(f(i)) > 0))
        ex.reg.havoc_ghost(ex, st, 'rng')
        return VArr(n, lambda t: f(t))
    reg.lib['rng.normal'] = normal
    reg.lib['np.linalg.cholesky'] = lambda ex, st, a, k, n: Sym(
        chol(a[0].t), 'Mat')
    reg.lib['np.linalg.inv'] = lambda ex, st, a, k, n: Sym(minv(a[0].t), 'Mat')
    prev = reg.getattr_hook

    def getattr_hook(ex, st, o, d, name, node):
        if isinstance(d, VArr) and name == 'shape':
            return (Sym(d.n, 'int'), Sym(z3.Int('n_dim_of_points'), 'int'))
        if prev is not None:
            return prev(ex, st, o, d, name, node)
        return NotImplemented
    reg.getattr_hook = getattr_hook
    prev_len = reg.len_hook
    reg.len_hook = lambda ex, st, v, node: Sym(v.n, 'int') if isinstance(
        v, VArr) else prev_len(ex, st, v, node)


def make_ellipsoid(ex, st):
    axioms(st)
    Bm = fresh('Mat', 'B')
    Bi = fresh('Mat', 'B_inv')
    v = z3.Const('v!q', Vec)
    # class invariant established by compute: B_inv is the inverse of B
    st.assume(z3.ForAll([v], MV(Bi.t, MV(Bm.t, v)) == v))
    nd = fresh('int', 'n_dim')
    st.assume(nd.t >= 1)
    return st.alloc(ObjRec('Ellipsoid', dict(
        n_dim=nd, c=fresh('Vec', 'c'), A=fresh('Mat', 'A'), B=Bm, B_inv=Bi,
        rng=Opaque('rng'))), 'self')


def spec_contains(self_rec, p):
    return norm2(MV(self_rec.fields['B_inv'].t,
                    vsub(p, self_rec.fields['c'].t))) < 1


def ellipsoid_units(cx, fe, info):
    reg = new_registry(fe)
    install(reg)
    reg.inline.add(BQ + 'Ellipsoid.transform')
    ex = Executor(cx, fe, reg)
    G = {}

    def env_c(ex_, st):
        self_ = make_ellipsoid(ex_, st)
        f = fresh_fn(['int'], 'Vec', 'probe')
        n = z3.Int(uid('n_probe'))
        st.assume(n >= 0)
        G['probe'] = VArr(n, lambda i: f(i))
        return dict(self=self_, points=G['probe'])

    def post_c(Vo, Vn, res):
        r = Vn.ex.deref(Vn.st, res)
        rec = Vn.st.cell(Vn.raw('self'))
        p = G['probe']
        return [('contains_is_unit_ball_in_the_cholesky_frame', z3.And(
            r.n == p.n, A.forall_idx(p.n, lambda i: r.at(i) == spec_contains(
                rec, p.at(i)))))]
    verify_function(ex, BQ + 'Ellipsoid.contains', FnContract(
        BQ + 'Ellipsoid.contains', params=['points'], post=post_c), env_c)
    fn_entry(fe, info, BQ + 'Ellipsoid.contains')

    def env_s(ex_, st):
        self_ = make_ellipsoid(ex_, st)
        n = fresh('int', 'n_points')
        st.assume(n.t >= 0)
        return dict(self=self_, n_points=n)

    def post_s(Vo, Vn, res):
        rec = Vn.st.cell(Vn.raw('self'))
        r = res
        return [('sample_len', r.n == Vo.int('n_points')),
                ('every_sample_is_contained', A.forall_idx(
                    r.n, lambda i: spec_contains(rec, r.at(i))))]
    verify_function(ex, BQ + 'Ellipsoid.sample', FnContract(
        BQ + 'Ellipsoid.sample', params=['n_points'],
        defaults=dict(n_points=100), post=post_s, mod_ghost=['rng']), env_s)
    fn_entry(fe, info, BQ + 'Ellipsoid.sample')

    # ---- compute: construction points are enclosed
    def mvee(ex_, st, args, kw, node):
        pts = args[0]
        c = fresh('Vec', 'mvee_c')
        Am = fresh('Mat', 'mvee_A')
        Ai = fresh('Mat', 'mvee_A_inv')
        # contract of minimum_volume_enclosing_ellipsoid (its last block is
        # verified below): scaled such that every point has form <= 1
        st.assume(z3.And(posdef(Am.t), Ai.t == minv(Am.t), A.forall_idx(
            pts.n, lambda i: qf(Am.t, vsub(pts.at(i), c.t)) <= 1)))
        return (c, Am, Ai)
    reg.lib['minimum_volume_enclosing_ellipsoid'] = mvee
    reg.globals['minimum_volume_enclosing_ellipsoid'] = Lib(
        'minimum_volume_enclosing_ellipsoid')

    def env_comp(ex_, st):
        axioms(st)
        f = fresh_fn(['int'], 'Vec', 'construction')
        n = z3.Int(uid('n_construction'))
        st.assume(n >= 0)
        G['construction'] = VArr(n, lambda i: f(i))
        e = fresh('real', 'enlarge_per_dim')
        G['enlarge'] = e.t
        return dict(cls=ClassVal('Ellipsoid'), points=G['construction'],
                    enlarge_per_dim=e, rng=Opaque('rng'))

    def post_comp(Vo, Vn, res):
        rec = Vn.st.cell(res)
        p = G['construction']
        v = z3.Const('v!q', Vec)
        return [('construction_points_are_enclosed', z3.Implies(
            G['enlarge'] > 1, A.forall_idx(p.n, lambda i: spec_contains(
                rec, p.at(i))))),
            ('frame_is_consistent', rec.fields['B_inv'].t ==
             minv(rec.fields['B'].t))]

    def raises_comp(Vo, Vn, exc):
        p = G['construction']
        return [('only_documented_value_errors', z3.And(
            z3.BoolVal(exc == 'ValueError'), z3.Or(
                G['enlarge'] < 1, p.n <= z3.Int('n_dim_of_points'))))]
    verify_function(ex, BQ + 'Ellipsoid.compute', FnContract(
        BQ + 'Ellipsoid.compute', params=['points', 'enlarge_per_dim', 'rng'],
        post=post_comp, raises=raises_comp), env_comp, frame_obj='none',
        check_frame=False)
    fn_entry(fe, info, BQ + 'Ellipsoid.compute')

    # ---- last block of minimum_volume_enclosing_ellipsoid: the rescaling
    def select(fnode):
        body = fnode.body
        for i, n in enumerate(body):
            if isinstance(n, ast.Assign) and ast.unparse(n.targets[0]) == \
                    'scale':
                return body[i:]
        return []

    def env_mvee(ex_, st):
        axioms(st)
        f = fresh_fn(['int'], 'Vec', 'pts')
        n = z3.Int(uid('n_pts'))
        st.assume(n >= 1)
        pts = VArr(n, lambda i: f(i))
        Ai = fresh('Mat', 'A_inv0')
        st.assume(posdef(Ai.t))
        Am = Sym(minv(Ai.t), 'Mat')
        c = fresh('Vec', 'c0')
        # not all points coincide with the centre (more points than
        # dimensions in general position: precondition of Ellipsoid.compute)
        i = A.qi('i')
        st.assume(z3.Exists([i], z3.And(i >= 0, i < n, qf(
            Am.t, vsub(f(i), c.t)) > 0)))
        G.update(mpts=pts, mA=Am.t, mAi=Ai.t, mc=c.t)
        return dict(points=pts, c=c, A=Am, A_inv=Ai)

    def post_mvee(old, o):
        res = o.retval
        c, Am, Ai = res
        p = G['mpts']
        return [('every_point_has_form_at_most_one', A.forall_idx(
            p.n, lambda i: qf(Am.t, vsub(p.at(i), c.t)) <= 1)),
            ('inverse_pair_scaled_coherently', Ai.t == minv(Am.t))]
    verify_block(ex, BQ + 'minimum_volume_enclosing_ellipsoid', select,
                 env_mvee, post_mvee, tag='[rescaling]')
    fn_entry(fe, info, BQ + 'minimum_volume_enclosing_ellipsoid',
             status='block: rescaling after the (havoced) Khachiyan loop')
