"""C07 / C08: UnitCubeEllipsoidMixture.contains / sample / log_v over a column
algebra.

A point (sort Pt) is split by the boolean mask `dim_cube` into its cube part
(sort PtC) and its ellipsoid part (sort PtE):

    points[..., arange(n_dim)[dim_cube]]        -> PC(p)
    points[..., arange(n_dim)[~dim_cube]]       -> PE(p)
    points[:, arange(n_dim)[dim_cube]] = X      -> SETC(p, x)
    points[:, arange(n_dim)[~dim_cube]] = X     -> SETE(p, x)

with the laws of two complementary column sets (axioms, facts about numpy fancy
indexing with a mask and its complement). Which of the two an index array is,
is decided from the mask it was built with (the real `self.dim_cube` array or
its elementwise negation). The two parts are abstract bounds with the contracts
proved by their own units (UnitCube: C07 UnitCube; Ellipsoid: C07 Ellipsoid)."""
import ast
import z3

from pyvc.core import (State, Sym, Arr, ObjRec, Ref, Opaque, fresh, fresh_fn,
                       uid, I, B, sort_of, OutsideSubset)
from pyvc import arrays as A
from pyvc.registry import FnContract
from pyvc.symexec import Executor, LoopSpec, View
from pyvc.verify import verify_function
from .common import new_registry, fn_entry

BQ = 'nautilus.bounds.basic.UnitCubeEllipsoidMixture.'
Pt, PtC, PtE = sort_of('Pt'), sort_of('PtC'), sort_of('PtE')
CubeB, EllB = sort_of('CubeB'), sort_of('EllB')
PC = z3.Function('cube_part', Pt, PtC)
PE = z3.Function('ellipsoid_part', Pt, PtE)
SETC = z3.Function('set_cube_part', Pt, PtC, Pt)
SETE = z3.Function('set_ellipsoid_part', Pt, PtE, Pt)
INC = z3.Function('in_unit_cube', PtC, z3.BoolSort())
CE = z3.Function('ellipsoid_contains', EllB, PtE, z3.BoolSort())
LVE = z3.Function('ellipsoid_log_v', EllB, z3.RealSort())


def axioms(st):
    p = z3.Const('p!q', Pt)
    c, e = z3.Const('c!q', PtC), z3.Const('e!q', PtE)
    st.assume(z3.ForAll([p, c], z3.And(PC(SETC(p, c)) == c,
                                       PE(SETC(p, c)) == PE(p))))
    st.assume(z3.ForAll([p, e], z3.And(PE(SETE(p, e)) == e,
                                       PC(SETE(p, e)) == PC(p))))


class ColIdx:
    """np.arange(n_dim)[mask] with mask = dim_cube ('cube') or ~dim_cube"""

    def __init__(self, which):
        self.which = which


def install(reg, G):
    def which_mask(ex, st, m):
        dc = G['dim_cube']
        j = z3.Int('probe!col')
        t = z3.simplify(m.at(j))
        if z3.eq(t, z3.simplify(dc.at(j))):
            return 'cube'
        if z3.eq(t, z3.simplify(z3.Not(dc.at(j)))):
            return 'ell'
        return None
    prev_sub = reg.subscript_hook

    def subscript_hook(ex, st, base, d, sl, node):
        if isinstance(d, Arr) and d.tag == 'arange_n_dim':
            m = ex.deref(st, ex.eval(sl, st))
            if isinstance(m, Arr) and m.k == 'bool':
                ex.need(st)('mask_len', m.n == d.n)
                w = which_mask(ex, st, m)
                if w is None:
                    raise OutsideSubset('column mask is neither dim_cube nor '
                                        'its complement', node)
                return ColIdx(w)
        if isinstance(d, Arr) and d.k == 'Pt' and isinstance(sl, ast.Tuple) \
                and len(sl.elts) == 2:
            first = sl.elts[0]
            whole = (isinstance(first, ast.Constant) and first.value is
                     Ellipsis) or (isinstance(first, ast.Slice) and
                                   first.lower is None and first.upper is None
                                   and first.step is None)
            idx = ex.eval(sl.elts[1], st)
            if whole and isinstance(idx, ColIdx):
                if idx.which == 'cube':
                    return st.alloc(Arr(d.n, lambda i: PC(d.at(i)), 'PtC'),
                                    'cubepart')
                return st.alloc(Arr(d.n, lambda i: PE(d.at(i)), 'PtE'),
                                'ellpart')
        if prev_sub is not None:
            return prev_sub(ex, st, base, d, sl, node)
        return NotImplemented
    reg.subscript_hook = subscript_hook
    prev_set = reg.setitem_hook

    def setitem_hook(ex, st, base, d, sl, v, node):
        if isinstance(d, Arr) and d.k == 'Pt' and isinstance(sl, ast.Tuple) \
                and len(sl.elts) == 2 and isinstance(sl.elts[0], ast.Slice) \
                and sl.elts[0].lower is None and sl.elts[0].upper is None:
            idx = ex.eval(sl.elts[1], st)
            x = ex.deref(st, v)
            if isinstance(idx, ColIdx) and isinstance(x, Arr):
                want = 'PtC' if idx.which == 'cube' else 'PtE'
                if x.k != want:
                    # e.g. ellipsoid samples stored into the cube columns:
                    # numpy raises (shape mismatch) or silently misplaces
                    ex.need(st)('column_block_has_matching_width',
                                z3.BoolVal(False))
                    return NotImplemented
                ex.need(st)('column_block_rows', x.n == d.n)
                f = SETC if idx.which == 'cube' else SETE
                st.set_cell(base, Arr(d.n, lambda i: f(d.at(i), x.at(i)),
                                      'Pt'))
                return True
        if prev_set is not None:
            return prev_set(ex, st, base, d, sl, v, node)
        return NotImplemented
    reg.setitem_hook = setitem_hook
    base_arange = reg.lib['np.arange']

    def np_arange(ex, st, args, kw, node):
        r = base_arange(ex, st, args, kw, node)
        a = ex.deref(st, r)
        if z3.eq(z3.simplify(a.n), z3.simplify(I(G['n_dim']))):
            st.set_cell(r, Arr(a.n, a.fn, a.k, tag='arange_n_dim'))
        return r
    reg.lib['np.arange'] = np_arange

    def c_contains(ex, st, m, args, kw, node):
        p = ex.deref(st, args[0])
        if not (isinstance(p, Arr) and p.k == 'PtC'):
            raise OutsideSubset('cube.contains of non cube part', node)
        return st.alloc(Arr(p.n, lambda i: INC(p.at(i)), 'bool'), 'inc')

    def c_sample(ex, st, m, args, kw, node):
        n = I(args[0])
        ex.reg.havoc_ghost(ex, st, 'rng')
        r = A.fresh_arr(st, 'PtC', 'cube_draw', n=n)
        # contract of UnitCube.sample (C07 UnitCube unit)
        st.assume(A.forall_idx(n, lambda i: INC(r.at(i))))
        G['cube_draw'] = r
        return st.alloc(r, 'cube_draw')

    def e_contains(ex, st, m, args, kw, node):
        p = ex.deref(st, args[0])
        if not (isinstance(p, Arr) and p.k == 'PtE'):
            raise OutsideSubset('ellipsoid.contains of non ellipsoid part',
                                node)
        return st.alloc(Arr(p.n, lambda i: CE(m.t, p.at(i)), 'bool'), 'ine')

    def e_sample(ex, st, m, args, kw, node):
        n = I(args[0])
        ex.reg.havoc_ghost(ex, st, 'rng')
        r = A.fresh_arr(st, 'PtE', 'ell_draw', n=n)
        # contract of Ellipsoid.sample (C07 Ellipsoid unit)
        st.assume(A.forall_idx(n, lambda i: CE(m.t, r.at(i))))
        G['ell_draw'] = r
        return st.alloc(r, 'ell_draw')
    reg.sort_methods[('CubeB', 'contains')] = c_contains
    reg.sort_methods[('CubeB', 'sample')] = c_sample
    reg.sort_methods[('EllB', 'contains')] = e_contains
    reg.sort_methods[('EllB', 'sample')] = e_sample
    reg.method_effects.setdefault('sample', dict(fields=[], ghost=['rng'],
                                                 arg_cells=[]))
    prev_get = reg.getattr_hook

    def getattr_hook(ex, st, o, d, name, node):
        if isinstance(d, Arr) and d.k == 'Pt' and name == 'shape':
            return (Sym(d.n, 'int'), G['n_dim'])
        if isinstance(d, Sym) and d.k == 'EllB' and name == 'log_v':
            return Sym(LVE(d.t), 'real')
        if prev_get is not None:
            return prev_get(ex, st, o, d, name, node)
        return NotImplemented
    reg.getattr_hook = getattr_hook

    def zeros2(ex, st, shp, val, k, node):
        z = A.fresh_arr(st, 'Pt', 'zeros_pts', n=I(shp[0]))
        G['zeros'] = z
        return st.alloc(z, 'z')
    reg.zeros2_hook = zeros2


def make(ex, st, G, cube_none, ell_none):
    axioms(st)
    nd = fresh('int', 'n_dim')
    st.assume(nd.t >= 1)
    dc = A.fresh_arr(st, 'bool', 'dim_cube', n=nd.t)
    cnt = A.count(st, dc)
    # class invariant established by compute()
    st.assume((cnt > 0) == z3.BoolVal(not cube_none))
    st.assume((cnt == dc.n) == z3.BoolVal(ell_none))
    G.update(dim_cube=dc, n_dim=nd)
    f = dict(n_dim=nd, dim_cube=st.alloc(dc, 'dim_cube'),
             cube=None if cube_none else fresh('CubeB', 'cube'),
             ellipsoid=None if ell_none else fresh('EllB', 'ellipsoid'))
    G.update(cube=f['cube'], ell=f['ellipsoid'])
    return st.alloc(ObjRec('UnitCubeEllipsoidMixture', f), 'self')


def spec_contains(G, p):
    out = []
    if G['cube'] is not None:
        out.append(INC(PC(p)))
    if G['ell'] is not None:
        out.append(CE(G['ell'].t, PE(p)))
    return z3.And(*out) if out else z3.BoolVal(True)


def mixture_units(cx, fe, info, refinement=False):
    """soundness obligations (C07); with refinement=True the obligations of
    C08: the sample is the join of the two part draws, log_v is the
    ellipsoid's (the cube part has volume one)"""
    for cube_none, ell_none in ((False, False), (True, False), (False, True)):
        reg = new_registry(fe)
        G = {}
        install(reg, G)
        ex = Executor(cx, fe, reg)
        tag = '[cube={},ellipsoid={}]'.format(not cube_none, not ell_none)

        def env_c(ex_, st, cn=cube_none, en=ell_none, G=G):
            self_ = make(ex_, st, G, cn, en)
            pts = A.fresh_arr(st, 'Pt', 'probe')
            G['probe'] = pts
            return dict(self=self_, points=st.alloc(pts, 'probe'))

        def post_c(Vo, Vn, res, G=G):
            r = Vn.ex.deref(Vn.st, res)
            p = G['probe']
            return [('contains_is_cube_part_and_ellipsoid_part', z3.And(
                r.n == p.n, A.forall_idx(p.n, lambda i: r.at(i) ==
                                         spec_contains(G, p.at(i)))))]
        if not refinement:
            verify_function(ex, BQ + 'contains', FnContract(
                BQ + 'contains', params=['points'], post=post_c), env_c,
                tag=tag)

        def env_s(ex_, st, cn=cube_none, en=ell_none, G=G):
            self_ = make(ex_, st, G, cn, en)
            n = fresh('int', 'n_points')
            st.assume(n.t >= 0)
            return dict(self=self_, n_points=n)

        def post_s(Vo, Vn, res, G=G):
            r = Vn.ex.deref(Vn.st, res)
            out = [('sample_len', r.n == Vo.int('n_points'))]
            if not refinement:
                out.append(('every_sample_is_contained', A.forall_idx(
                    r.n, lambda i: spec_contains(G, r.at(i)))))
            else:
                z = G['zeros']

                def joined(i):
                    t = z.at(i)
                    if G['cube'] is not None:
                        t = SETC(t, G['cube_draw'].at(i))
                    if G['ell'] is not None:
                        t = SETE(t, G['ell_draw'].at(i))
                    return t
                out.append(('M1_sample_is_the_join_of_independent_part_draws',
                            A.forall_idx(r.n, lambda i: z3.And(
                                PC(r.at(i)) == PC(joined(i)),
                                PE(r.at(i)) == PE(joined(i))))))
            return out
        verify_function(ex, BQ + 'sample', FnContract(
            BQ + 'sample', params=['n_points'], defaults=dict(n_points=100),
            post=post_s, mod_ghost=['rng']), env_s, tag=tag)
        if refinement:
            def env_v(ex_, st, cn=cube_none, en=ell_none, G=G):
                return dict(self=make(ex_, st, G, cn, en))

            def post_v(Vo, Vn, res, G=G):
                from pyvc.arrays import zv
                want = LVE(G['ell'].t) if G['ell'] is not None else \
                    z3.RealVal(0)
                return [('M2_volume_is_the_ellipsoid_volume_times_one',
                         zv(res, 'real') == want)]
            verify_function(ex, BQ + 'log_v', FnContract(
                BQ + 'log_v', post=post_v), env_v, tag=tag)
    if not refinement:
        fn_entry(fe, info, BQ + 'contains')
    else:
        fn_entry(fe, info, BQ + 'log_v')
    fn_entry(fe, info, BQ + 'sample')
