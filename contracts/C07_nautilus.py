"""C07: NeuralBound.contains and NautilusBound.contains / sample with abstract
components (outer union, neural bounds, periodic shift, emulator)."""
import ast
import z3

from pyvc.core import (State, Sym, Arr, Arr2, LArr, SList, PyList, ObjRec, Ref,
                       Opaque, ClassVal, fresh, fresh_fn, uid, I, B, sort_of,
                       OutsideSubset, Raised)
from pyvc import arrays as A
from pyvc.npmodel import MaybeNone
from pyvc.registry import FnContract
from pyvc.symexec import Executor, LoopSpec, View, Lib, PyCallable, BoundMethod
from pyvc.verify import verify_function
from .common import new_registry, fn_entry
from . import union_model as U
from .union_model import Cm, incube, Pt

BQ = 'nautilus.bounds.'
UnionB = sort_of('UnionB')
NeuralB = sort_of('NeuralB')
NBCopy = sort_of('NBCopy')
CU = z3.Function('CU', UnionB, Pt, z3.BoolSort())     # outer union contains
CN = z3.Function('CN', NeuralB, Pt, z3.BoolSort())    # neural bound contains
SH = z3.Function('shift', Pt, Pt)                     # forward phase shift
USH = z3.Function('unshift', Pt, Pt)                  # inverse phase shift
SCORE = z3.Function('emulator_score', Pt, z3.RealSort())
TR = z3.Function('ellipsoid_frame', Pt, Pt)
CP = z3.Function('copy_points', NBCopy, z3.IntSort(), Pt)
CPN = z3.Function('copy_n_points', NBCopy, z3.IntSort())
CNS = z3.Function('copy_counter', NBCopy, z3.IntSort(), z3.IntSort())


def neural_units(cx, fe, info):
    reg = new_registry(fe)
    U.install_member_api(reg, cx)

    def predict(ex, st, args, kw, node):
        p = ex.deref(st, args[1])
        return st.alloc(Arr(p.n, lambda j: SCORE(p.at(j)), 'real'), 'score')
    reg.lib['emulator.predict'] = predict

    def atleast_2d(ex, st, args, kw, node):
        return args[0]
    reg.lib['np.atleast_2d'] = atleast_2d

    def m_transform(ex, st, m, args, kw, node):
        p = ex.deref(st, args[0])
        return st.alloc(Arr(p.n, lambda j: TR(p.at(j)), 'Pt'), 'tr')
    reg.sort_methods[('Member', 'transform')] = m_transform
    prev = reg.getattr_hook

    def getattr_hook(ex, st, o, d, name, node):
        if isinstance(d, Opaque) and d.what == 'emulator':
            return BoundMethod(o, name)
        return prev(ex, st, o, d, name, node)
    reg.getattr_hook = getattr_hook
    ex = Executor(cx, fe, reg)
    G = {}

    def env(ex_, st):
        ob = fresh('Member', 'outer_ellipsoid')
        pts = A.fresh_arr(st, 'Pt', 'probe')
        G.update(outer=ob.t, probe=pts)
        smin = fresh('real', 'score_predict_min')
        G['smin'] = smin.t
        em = MaybeNone(z3.Bool(uid('emulator_none')), Opaque('emulator'))
        G['em_none'] = em.isnone
        self_ = st.alloc(ObjRec('NeuralBound', dict(
            n_dim=fresh('int', 'n_dim'), outer_bound=ob, emulator=em,
            score_predict_min=smin)), 'self')
        return dict(self=self_, points=st.alloc(pts, 'probe'))

    def post(Vo, Vn, res):
        r = Vn.ex.deref(Vn.st, res)
        p, ob = G['probe'], G['outer']
        return [('never_contains_a_point_outside_the_outer_ellipsoid', z3.And(
            r.n == p.n, A.forall_idx(p.n, lambda j: z3.Implies(
                r.at(j), Cm(ob, p.at(j)))))),
            ('contains_is_elementwise', A.forall_idx(p.n, lambda j: r.at(j) ==
             z3.And(Cm(ob, p.at(j)), z3.Or(
                 G['em_none'], SCORE(TR(p.at(j))) > G['smin'] -
                 z3.RealVal('1e-9')))))]
    c = FnContract(BQ + 'neural.NeuralBound.contains', params=['points'],
                   post=post)
    verify_function(ex, BQ + 'neural.NeuralBound.contains', c, env)
    fn_entry(fe, info, BQ + 'neural.NeuralBound.contains')


def shift_axioms(st):
    p = z3.Const('p!q', Pt)
    # C16 (reals): the shift maps the cube to the cube and is undone by its
    # inverse; both directions
    st.assume(z3.ForAll([p], z3.Implies(incube(p), z3.And(
        incube(SH(p)), incube(USH(p)), SH(USH(p)) == p, USH(SH(p)) == p))))


def install_nautilus_theory(reg, G):
    def u_contains(ex, st, u, args, kw, node):
        p = ex.deref(st, args[0])
        return st.alloc(Arr(p.n, lambda j: CU(u.t, p.at(j)), 'bool'), 'inu')

    def u_sample(ex, st, u, args, kw, node):
        n = I(args[0])
        ex.reg.havoc_ghost(ex, st, 'rng')
        r = A.fresh_arr(st, 'Pt', 'usample', n=n)
        # contract of Union.sample (proved above for the real Union with
        # unit=True): rows are contained and inside the cube
        st.assume(A.forall_idx(n, lambda j: z3.And(CU(u.t, r.at(j)),
                                                   incube(r.at(j)))))
        cnt = st.ghost.get('ub_counts', {})
        st.ghost['ub_counts'] = dict(cnt, n_sample=fresh('int', 'ub_ns'),
                                     n_reject=fresh('int', 'ub_nr'))
        return st.alloc(r, 'usample')
    reg.sort_methods[('UnionB', 'contains')] = u_contains
    reg.sort_methods[('UnionB', 'sample')] = u_sample

    def n_contains(ex, st, nb, args, kw, node):
        p = ex.deref(st, args[0])
        return st.alloc(Arr(p.n, lambda j: CN(nb.t, p.at(j)), 'bool'), 'inn')
    reg.sort_methods[('NeuralB', 'contains')] = n_contains

    def shift_transform(ex, st, args, kw, node):
        p = ex.deref(st, args[1])
        inv = kw.get('inverse', False)
        f = USH if inv is True else SH
        if inv not in (True, False):
            raise OutsideSubset('symbolic inverse flag', node)
        return st.alloc(Arr(p.n, lambda j: f(p.at(j)), 'Pt'), 'shifted')
    reg.lib['shift.transform'] = shift_transform
    from .C07 import install_any_hook
    install_any_hook(reg, CN)
    reg.method_effects.setdefault('sample', dict(fields=[], ghost=['rng'],
                                                 arg_cells=[]))
    reg.ghost_havoc.setdefault('ub_counts', lambda ex, st: st.ghost.update(
        ub_counts=dict(n_sample=fresh('int', 'ub_ns'),
                       n_reject=fresh('int', 'ub_nr'))))
    prev = reg.getattr_hook

    def getattr_hook(ex, st, o, d, name, node):
        if isinstance(d, Opaque) and d.what == 'shift':
            return BoundMethod(o, name)
        if isinstance(d, Sym) and d.k == 'UnionB' and name in (
                'n_sample', 'n_reject'):
            return st.ghost.setdefault('ub_counts', {}).get(
                name, fresh('int', name))
        if isinstance(d, Sym) and d.k == 'NBCopy':
            if name == 'points':
                return st.alloc(Arr(CPN(d.t), lambda j: CP(d.t, j), 'Pt'),
                                'copy_points')
            if name == 'n_sample':
                return Sym(CNS(d.t, 0), 'int')
            if name == 'n_reject':
                return Sym(CNS(d.t, 1), 'int')
            if name == 'outer_bound':
                return ('copy_outer', d.t)
        if isinstance(o, tuple) and o and o[0] == 'copy_outer':
            return Sym(CNS(o[1], 2 if name == 'n_sample' else 3), 'int')
        if isinstance(d, Opaque) and d.what == 'pool' and name == 'size':
            s = fresh('int', 'pool_size')
            st.assume(s.t >= 1)
            return s
        if isinstance(d, Opaque) and d.what == 'pool':
            return BoundMethod(o, name)
        if prev is not None:
            return prev(ex, st, o, d, name, node)
        return NotImplemented
    reg.getattr_hook = getattr_hook
    prev_set = reg.setattr_hook

    def setattr_hook(ex, st, o, attr, v, node):
        if isinstance(o, Sym) and o.k == 'UnionB' and attr in (
                'n_sample', 'n_reject'):
            cnt = dict(st.ghost.get('ub_counts', {}))
            cnt[attr] = v
            st.ghost['ub_counts'] = cnt
            return True
        if prev_set is not None:
            return prev_set(ex, st, o, attr, v, node)
        return False
    reg.setattr_hook = setattr_hook

    reg.nested_attr_effect = lambda path: ['ub_counts'] if path.startswith(
        'self.outer_bound.') else None

    def partial_(ex, st, args, kw, node):
        G['n_per_job'] = I(args[1])
        return Opaque('partial_reset_and_sample')
    reg.lib['partial'] = partial_

    def default_rng(ex, st, args, kw, node):
        return Opaque('rng_worker')
    reg.lib['np.random.default_rng'] = default_rng

    def seedseq(ex, st, args, kw, node):
        return Opaque('seedsequence')
    reg.lib['np.random.SeedSequence'] = seedseq

    def spawn(ex, st, args, kw, node):
        n = I(args[1])
        G['n_jobs'] = n
        from pyvc.symexec import IterDom
        return IterDom(n, lambda k: Opaque('seed'))
    reg.lib['seedsequence.spawn'] = spawn

    def pool_map(ex, st, args, kw, node):
        # contract of pool.map(partial(_reset_and_sample, n), rngs): one
        # independent copy per generator, same geometry, each copy's cache
        # satisfies the cache invariant of the serial path (proved below for
        # the object itself; pickling preserves the geometry: assumption)
        n = G.get('n_jobs', z3.Int(uid('n_jobs')))   # one generator per job
        st.assume(n >= 0)
        copies = A.fresh_slist(st, 'NBCopy', 'copies', n=n)
        # each worker keeps sampling until it holds at least the requested
        # number of points (sample(return_points=False) loop exit)
        st.assume(A.forall_idx(n, lambda t: CPN(copies.at(t)) >=
                               G['n_per_job']))
        G['copies'] = copies
        u, nbs = G['outer'], G['neural']
        i, j, k = A.qi('i'), A.qi('j'), A.qi('k')
        st.assume(z3.ForAll([i, j], z3.Implies(
            z3.And(i >= 0, i < n, j >= 0, j < CPN(copies.at(i))),
            good(u, nbs, CP(copies.at(i), j)))))
        st.assume(A.forall_idx(n, lambda t: z3.And(
            CPN(copies.at(t)) >= 0, *[CNS(copies.at(t), q) >= 0
                                      for q in range(4)])))
        return st.alloc(copies, 'copies')
    reg.lib['pool.map'] = pool_map

    def zeros2(ex, st, shp, val, k, node):
        return st.alloc(A.fresh_arr(st, 'Pt', 'zeros_pts', n=I(shp[0])), 'z')
    reg.zeros2_hook = zeros2


def good(u, nbs, q):
    """cache invariant of a NautilusBound (shifted frame)"""
    k = A.qi('k')
    return z3.And(CU(u, q), incube(q), z3.Exists([k], z3.And(
        k >= 0, k < nbs.n, CN(nbs.at(k), q))))


def nautilus_units(cx, fe, info):
    reg = new_registry(fe)
    G = {}
    install_nautilus_theory(reg, G)
    ex = Executor(cx, fe, reg)
    Q = BQ + 'nautilus.NautilusBound.'

    def make(ex_, st, shifted):
        shift_axioms(st)
        u = fresh('UnionB', 'outer_union')
        nn = z3.Int(uid('n_neural'))
        st.assume(nn >= 1)      # compute() creates one per ellipsoid
        nbs = A.fresh_slist(st, 'NeuralB', 'neural_bounds', n=nn)
        cache = A.fresh_arr(st, 'Pt', 'cache')
        G.update(outer=u.t, neural=nbs, shifted=shifted)
        st.assume(A.forall_idx(cache.n, lambda j: good(u.t, nbs, cache.at(j))))
        f = dict(n_dim=fresh('int', 'n_dim'),
                 shift=Opaque('shift') if shifted else None,
                 neural_bounds=st.alloc(nbs, 'nbs'), outer_bound=u,
                 rng=Opaque('rng'), points=st.alloc(cache, 'cache'),
                 n_sample=fresh('int', 'n_sample'),
                 n_reject=fresh('int', 'n_reject'))
        return st.alloc(ObjRec('NautilusBound', f), 'self')

    def spec_contains(p):
        sp = SH(p) if G['shifted'] else p
        k = A.qi('k')
        return z3.And(CU(G['outer'], sp), z3.Exists([k], z3.And(
            k >= 0, k < G['neural'].n, CN(G['neural'].at(k), sp))))
    for shifted in (False, True):
        tag = '[periodic={}]'.format(shifted)

        def env_c(ex_, st, shifted=shifted):
            self_ = make(ex_, st, shifted)
            pts = A.fresh_arr(st, 'Pt', 'probe')
            G['probe'] = pts
            return dict(self=self_, points=st.alloc(pts, 'probe'))

        def post_c(Vo, Vn, res):
            r = Vn.ex.deref(Vn.st, res)
            p = G['probe']
            sp = (lambda q: SH(q)) if G['shifted'] else (lambda q: q)
            return [('contains_is_outer_and_any_neural', z3.And(
                r.n == p.n, A.forall_idx(p.n, lambda j: r.at(j) ==
                                         spec_contains(p.at(j))))),
                    ('never_contains_a_point_outside_the_outer_bound',
                     A.forall_idx(p.n, lambda j: z3.Implies(
                         r.at(j), CU(G['outer'], sp(p.at(j))))))]
        cc = FnContract(Q + 'contains', params=['points'], post=post_c)
        verify_function(ex, Q + 'contains', cc, env_c, tag=tag)
        for pooled in (False, True):
            def env_s(ex_, st, shifted=shifted, pooled=pooled):
                self_ = make(ex_, st, shifted)
                n = fresh('int', 'n_points')
                st.assume(n.t >= 0)
                return dict(self=self_, n_points=n, return_points=True,
                            pool=Opaque('pool') if pooled else None)

            def post_s(Vo, Vn, res):
                r = Vn.ex.deref(Vn.st, res)
                cache = Vn('self.points')
                return [('sample_len', r.n == Vo.int('n_points')),
                        ('every_sample_is_contained_and_in_the_cube',
                         A.forall_idx(r.n, lambda j: z3.And(
                             spec_contains(r.at(j)), incube(r.at(j))))),
                        ('cache_invariant_kept', A.forall_idx(
                            cache.n, lambda j: good(G['outer'], G['neural'],
                                                    cache.at(j))))]

            def inv_serial(V):
                cache = V('self.points')
                return [('cache_rows_good', A.forall_idx(
                    cache.n, lambda j: good(G['outer'], G['neural'],
                                            cache.at(j))))]
            def inv_pool(V):
                cache = V('self.points')
                kk = V.k(1)
                len0 = G.get('len0')
                out = inv_serial(V)
                if len0 is not None and 'n_per_job' in G:
                    out.append(('enough_points_collected',
                                cache.n >= len0 + kk * G['n_per_job']))
                return out

            def prep_pool(ex_, st_):
                G['len0'] = ex_.deref(st_, st_.getfield(st_.env['self'],
                                                        'points')).n
            cs = FnContract(
                Q + 'sample', params=['n_points', 'return_points', 'pool'],
                defaults=dict(n_points=100, return_points=True, pool=None),
                post=post_s, mod_fields=['points', 'n_sample', 'n_reject'],
                mod_ghost=['rng', 'ub_counts'],
                loops={0: LoopSpec(inv=inv_serial,
                                   extra_mods=['$ub_counts']),
                       1: LoopSpec(inv=inv_pool, prepare=prep_pool,
                                   extra_mods=['$ub_counts'])})
            verify_function(ex, Q + 'sample', cs, env_s,
                            tag=tag + ('[pool]' if pooled else '[serial]'))
    fn_entry(fe, info, Q + 'contains')
    fn_entry(fe, info, Q + 'sample')


def worker_units(cx, fe, info):
    """NautilusBound.reset empties the proposal cache and zeroes the counters;
    _reset_and_sample (what a pool worker runs on its pickled copy) resets
    BEFORE it samples, so a worker returns only its own draws - never the
    leftover proposals its copy inherited from the parent."""
    reg = new_registry(fe)
    G = {}
    install_nautilus_theory(reg, G)

    def u_reset(ex, st, u, args, kw, node):
        G['outer_reset_rng'] = args[0] if args else kw.get('rng')
        st.ghost['ub_counts'] = dict(n_sample=0, n_reject=0)
        return None
    reg.sort_methods[('UnionB', 'reset')] = u_reset
    reg.method_effects.setdefault('reset', dict(fields=[], ghost=[
        'ub_counts'], arg_cells=[]))
    ex = Executor(cx, fe, reg)
    Q = BQ + 'nautilus.NautilusBound.'

    def make(ex_, st):
        shift_axioms(st)
        u = fresh('UnionB', 'outer_union')
        nn = z3.Int(uid('n_neural'))
        st.assume(nn >= 1)
        nbs = A.fresh_slist(st, 'NeuralB', 'neural_bounds', n=nn)
        cache = A.fresh_arr(st, 'Pt', 'inherited_cache')
        G.update(outer=u.t, neural=nbs, shifted=False)
        nd = fresh('int', 'n_dim')
        st.assume(nd.t >= 1)
        f = dict(n_dim=nd, shift=None, neural_bounds=st.alloc(nbs, 'nbs'),
                 outer_bound=u, rng=Opaque('rng_old'),
                 points=st.alloc(cache, 'cache'),
                 n_sample=fresh('int', 'n_sample'),
                 n_reject=fresh('int', 'n_reject'))
        return st.alloc(ObjRec('NautilusBound', f), 'self')

    def env_r(ex_, st):
        G['rng_new'] = Opaque('rng_worker')
        return dict(self=make(ex_, st), rng=G['rng_new'])

    def post_r(Vo, Vn, res):
        rec = Vn.st.cell(Vn.raw('self'))
        cnt = Vn.st.ghost.get('ub_counts', {})
        return [('cache_emptied_and_counters_zeroed', z3.And(
            Vn('self.points').n == 0, Vn.int('self.n_sample') == 0,
            Vn.int('self.n_reject') == 0)),
            ('outer_bound_reset_with_the_same_generator', z3.BoolVal(
                G.get('outer_reset_rng') is G['rng_new'] and
                cnt.get('n_sample') == 0 and cnt.get('n_reject') == 0)),
            ('generator_replaced', z3.BoolVal(
                rec.fields.get('rng') is G['rng_new']))]
    c_reset = FnContract(Q + 'reset', params=['rng'], defaults=dict(rng=None),
                         post=post_r, mod_fields=['points', 'n_sample',
                                                  'n_reject', 'rng'],
                         mod_ghost=['ub_counts'])
    verify_function(ex, Q + 'reset', c_reset, env_r)
    fn_entry(fe, info, Q + 'reset')

    # _reset_and_sample against the contracts of reset and sample
    def reset_result(ex_, st, V):
        rec = st.cell(V.raw('self'))
        rec.fields['points'] = st.alloc(A.fresh_arr(st, 'Pt', 'empty', n=0),
                                        'empty')
        rec.fields['n_sample'] = 0
        rec.fields['n_reject'] = 0
        st.ghost['reset_done'] = True
        return None
    reg.add_contract(FnContract(
        Q + 'reset', params=['rng'], defaults=dict(rng=None),
        result=reset_result, mod_fields=['points', 'n_sample', 'n_reject',
                                         'rng'], mod_ghost=['ub_counts']))

    def sample_pre(V):
        return [('worker_samples_into_an_empty_cache', z3.And(
            z3.BoolVal(bool(V.st.ghost.get('reset_done'))),
            V('self.points').n == 0, V.int('self.n_sample') == 0))]
    reg.add_contract(FnContract(
        Q + 'sample', params=['n_points', 'return_points', 'pool'],
        defaults=dict(n_points=100, return_points=True, pool=None),
        pre=sample_pre, mod_fields=['points', 'n_sample', 'n_reject'],
        mod_ghost=['rng', 'ub_counts']))

    def env_w(ex_, st):
        n = fresh('int', 'n_points')
        st.assume(n.t >= 0)
        return dict(self=make(ex_, st), n_points=n, rng=Opaque('rng_worker'))

    def post_w(Vo, Vn, res):
        return [('returns_the_worker_copy_itself', z3.BoolVal(
            res is Vn.raw('self')))]
    verify_function(ex, Q + '_reset_and_sample', FnContract(
        Q + '_reset_and_sample', params=['n_points', 'rng'],
        defaults=dict(n_points=100, rng=None), post=post_w,
        mod_fields=['points', 'n_sample', 'n_reject', 'rng'],
        mod_ghost=['rng', 'ub_counts']), env_w)
    fn_entry(fe, info, Q + '_reset_and_sample')
