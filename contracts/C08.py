"""C08 - proposals are uniform over the bound, reported volumes calibrated.

The statement is distributional; contracts have no probabilistic semantics.
What is decided here, for all inputs, is that the code IS the reference
algorithm whose uniformity / volume calibration is a textbook fact
(volume-proportional component choice + acceptance with probability
1/multiplicity => uniform on the union; the accepted fraction estimates the
volume ratio):

  E1  Ellipsoid.sample    = B (z/|z| u^(1/d)) + c,  z normal, u uniform
  E2  Ellipsoid.log_v     = log|det B| + (d/2) log pi - lnGamma(d/2+1)
  U1  Union.sample round: one multinomial(1000, exp(log_v_all - lse(log_v_all)))
  U3  acceptance          threshold 1 - 1/multiplicity, accepted iff u > thr.
  U4  counters            n_sample += 1000; n_reject += 1000 - #accepted
                          (cube and multiplicity rejections both counted)
  U5  cache is FIFO       rows appended in order, oldest rows returned
  U6  Union.log_v         = lse(log_v_all) + log(1 - n_reject/n_sample)
  N1  NautilusBound round: n_sample += 1000; n_reject += 1000 - #accepted
  N2  pool path           all workers' counters of both levels are added
  N3  NautilusBound.log_v = outer.log_v + log(1 - n_reject/n_sample)
The probabilistic lemma itself is an assumption (stated, not checked).
"""
import ast
import z3

from pyvc.core import (State, Sym, Arr, LArr, SList, ObjRec, Ref, Opaque,
                       ClassVal, fresh, fresh_fn, uid, I, B, sort_of,
                       OutsideSubset)
from pyvc import arrays as A
from pyvc.arrays import zv
from pyvc.npmodel import MaybeNone, f_log, f_exp, f_sqrt, f_pow
from pyvc.registry import FnContract
from pyvc.symexec import Executor, LoopSpec, View, Lib, PyCallable
from pyvc.verify import verify_function
from pyvc.lib import lse_term
from .common import new_registry, fn_entry
from . import union_model as U
from . import C07_ellipsoid as E
from . import C07_nautilus as N

OBLIGATION_FLOOR = 30
Z3_TIMEOUT_MS = 40000
UNITS = ['Ellipsoid', 'Union', 'NautilusBound', 'Mixture',
         'Union.restructure']
BRANCH_COVERED_FUNCTIONS = ()
DEAD_BRANCHES = ()
BQ = 'nautilus.bounds.'


def _branch_cov():
    return []


def _branch_all():
    return []


# ---------------------------------------------------------------------------

def ellipsoid_units(cx, fe, info):
    reg = new_registry(fe)
    E.install(reg)
    reg.inline.add(BQ + 'basic.Ellipsoid.transform')
    G = {}
    base_normal = reg.lib['rng.normal']

    def normal(ex, st, args, kw, node):
        v = base_normal(ex, st, args, kw, node)
        G['z'] = v
        return v
    reg.lib['rng.normal'] = normal
    base_uniform = reg.lib['rng.uniform']

    def uniform(ex, st, args, kw, node):
        v = base_uniform(ex, st, args, kw, node)
        G['u'] = ex.deref(st, v)
        return v
    reg.lib['rng.uniform'] = uniform
    LOGDET = z3.Function('log_abs_det', E.Mat, z3.RealSort())
    GAMMALN = z3.Function('gammaln', z3.RealSort(), z3.RealSort())

    def slogdet(ex, st, args, kw, node):
        return (Opaque('sign'), Sym(LOGDET(args[0].t), 'real'))
    reg.lib['np.linalg.slogdet'] = slogdet
    reg.lib['gammaln'] = lambda ex_, st, a, k, n: Sym(GAMMALN(zv(
        a[0], 'real')), 'real')
    reg.globals['gammaln'] = Lib('gammaln')
    ex = Executor(cx, fe, reg)

    def env_s(ex_, st):
        self_ = E.make_ellipsoid(ex_, st)
        n = fresh('int', 'n_points')
        st.assume(n.t >= 0)
        return dict(self=self_, n_points=n)

    def post_s(Vo, Vn, res):
        rec = Vn.st.cell(Vn.raw('self'))
        z, u = G['z'], G['u']
        nd = z3.ToReal(I(rec.fields['n_dim']))
        Bm, c = rec.fields['B'].t, rec.fields['c'].t
        return [('E1_sample_is_the_reference_construction', z3.And(
            res.n == z.n, res.n == u.n, res.n == Vo.int('n_points'),
            A.forall_idx(res.n, lambda i: res.at(i) == E.vadd(E.MV(
                Bm, E.vscale(E.vscale(z.at(i), 1 / f_sqrt(E.norm2(z.at(i)))),
                             f_pow(u.at(i), 1 / nd))), c))))]
    verify_function(ex, BQ + 'basic.Ellipsoid.sample', FnContract(
        BQ + 'basic.Ellipsoid.sample', params=['n_points'],
        defaults=dict(n_points=100), post=post_s, mod_ghost=['rng']), env_s)
    fn_entry(fe, info, BQ + 'basic.Ellipsoid.sample')

    def env_v(ex_, st):
        # numeric fact about the uninterpreted log / gammaln:
        # log 2 + lnGamma(3/2) = (1/2) log pi
        st.assume(f_log(z3.RealVal(2)) + GAMMALN(z3.RealVal('1.5')) ==
                  z3.Real('half_log_pi'))
        return dict(self=E.make_ellipsoid(ex_, st))

    def post_v(Vo, Vn, res):
        rec = Vn.st.cell(Vn.raw('self'))
        nd = z3.ToReal(I(rec.fields['n_dim']))
        return [('E2_log_volume_of_the_unit_ball_image', zv(res, 'real') ==
                 LOGDET(rec.fields['B'].t) + nd * z3.Real('half_log_pi') -
                 GAMMALN(nd / 2 + 1))]
    verify_function(ex, BQ + 'basic.Ellipsoid.log_v', FnContract(
        BQ + 'basic.Ellipsoid.log_v', post=post_v), env_v)
    fn_entry(fe, info, BQ + 'basic.Ellipsoid.log_v')


# ---------------------------------------------------------------------------

def lazy_inv(V):
    """class invariant set up by reset(): without a draw there is no cache"""
    return [('C0_no_draw_no_cache', z3.Implies(
        V.int('self.n_sample') == 0, V('self.points').n == 0))]


def union_units(cx, fe, info):
    from .C13_split import install_sample_theory
    reg = new_registry(fe)
    U.install_member_api(reg, cx)
    install_sample_theory(reg)
    ex = Executor(cx, fe, reg)
    G = {}

    def assume_inv(ex_, st):
        self_ = U.make_union(ex_, st, G)
        st.env = dict(self=self_)
        for (nm, f) in U.InvU(View(ex_, st)) + lazy_inv(View(ex_, st)):
            st.assume(f)
        return self_

    def env(ex_, st):
        self_ = assume_inv(ex_, st)
        n = fresh('int', 'n_points')
        st.assume(n.t >= 0)
        v = View(ex_, st)
        G.update(cache0=v('self.points'), ns0=v.int('self.n_sample'),
                 nr0=v.int('self.n_reject'), n=n.t)
        return dict(self=self_, n_points=n)

    def step0(Vs, Ve):
        st = Ve.st
        lv = U.S(Vs, 'log_v_all')
        mn = st.ghost.get('multinomial', ())
        mn0 = Vs.st.ghost.get('multinomial', ())
        out = [('U1_one_multinomial_draw_per_round',
                z3.BoolVal(len(mn) == len(mn0) + 1))]
        if len(mn) == len(mn0) + 1:
            n, p, r = mn[-1]
            out.append(('U1_component_probabilities_proportional_to_volume',
                        z3.And(n == 1000, p.n == lv.n, A.forall_idx(
                            lv.n, lambda i: p.at(i) == f_exp(
                                lv.at(i) - lse_term(st, lv))))))
        acc = Ve('points')          # accepted rows of this round
        pr = Ve('p')                # rejection threshold 1 - 1/multiplicity
        nbd = Ve('n_bound')
        c0, c1 = U.S(Vs, 'points'), U.S(Ve, 'points')
        dr = st.ghost.get('rng_uniform_draws', ())
        dr0 = Vs.st.ghost.get('rng_uniform_draws', ())
        out.append(('U3_threshold_is_one_minus_inverse_multiplicity', z3.And(
            pr.n == nbd.n, A.forall_idx(nbd.n, lambda j: pr.at(j) == 1 - 1 /
                                        z3.ToReal(nbd.at(j))))))
        out.append(('U3_one_uniform_draw_per_candidate',
                    z3.BoolVal(len(dr) == len(dr0) + 1)))
        if len(dr) == len(dr0) + 1:
            u = dr[-1]
            mask = Arr(pr.n, lambda j: u.at(j) > pr.at(j), 'bool')
            out.append(('U3_accepted_iff_draw_exceeds_threshold', z3.And(
                u.n == pr.n, acc.n == A.count(st, mask))))
        out.append(('U4_counters', z3.And(
            Ve.int('self.n_sample') == Vs.int('self.n_sample') + 1000,
            Ve.int('self.n_reject') == Vs.int('self.n_reject') + 1000 -
            acc.n)))
        out.append(('U5_cache_appended_in_order', z3.And(
            c1.n == c0.n + acc.n,
            A.forall_idx(c0.n, lambda j: c1.at(j) == c0.at(j)),
            A.forall_idx(acc.n, lambda j: c1.at(c0.n + j) == acc.at(j)))))
        return out

    def inv0(V):
        c0 = G['cache0']
        c = U.S(V, 'points')
        k = V.k(0)
        return [('U5_old_cache_is_a_prefix', z3.And(
            c.n >= c0.n, A.forall_idx(c0.n, lambda j: c.at(j) == c0.at(j)))),
            ('U4_thousand_proposals_per_round',
             V.int('self.n_sample') == G['ns0'] + 1000 * k),
            ('U4_rejections_bounded', z3.And(
                V.int('self.n_reject') >= G['nr0'],
                V.int('self.n_reject') - G['nr0'] <= 1000 * k)),
            ('no_round_no_change', z3.Implies(k == 0, z3.And(
                c.n == c0.n, V.int('self.n_reject') == G['nr0']))),
            ('no_round_when_cache_suffices', z3.Implies(c0.n >= G['n'],
                                                        k == 0))]

    def post(Vo, Vn, res):
        r = Vn.ex.deref(Vn.st, res)
        c0 = G['cache0']
        n = Vo.int('n_points')
        return [('U5_returned_rows_are_the_oldest_cached_rows', z3.And(
            r.n == n, A.forall_idx(z3.If(n < c0.n, n, c0.n),
                                   lambda j: r.at(j) == c0.at(j)))),
                ('U4_lazy_draw_sets_the_counters', z3.And(
                    Vn.int('self.n_sample') >= G['ns0'], z3.Implies(
                        c0.n < n, Vn.int('self.n_sample') >= G['ns0'] + 1000),
                    z3.Implies(c0.n >= n, z3.And(
                        Vn.int('self.n_sample') == G['ns0'],
                        Vn.int('self.n_reject') == G['nr0'])))),
                ('U3_counters_consistent', z3.And(
                    Vn.int('self.n_reject') >= 0, Vn.int('self.n_reject') <=
                    Vn.int('self.n_sample')))] + \
            [(nm + '_kept', f) for (nm, f) in lazy_inv(Vn)]
    c = FnContract(BQ + 'union.Union.sample', params=['n_points'],
                   defaults=dict(n_points=100), post=post,
                   mod_fields=['points', 'n_sample', 'n_reject'],
                   mod_ghost=['rng'],
                   loops={0: LoopSpec(inv=inv0, step=step0)})
    verify_function(ex, BQ + 'union.Union.sample', c, env)
    fn_entry(fe, info, BQ + 'union.Union.sample')

    # ---- log_v, against the contract of sample (lazy first draw)
    def pre_call(V):
        return U.InvU(V) + lazy_inv(V) + [('n_points_nonneg',
                                           V.int('n_points') >= 0)]

    def result_call(ex_, st, V):
        return st.alloc(A.fresh_arr(st, 'Pt', 'sampled', n=V.int('n_points')),
                        'sampled')

    def post_call(Vo, Vn, res):
        n = Vo.int('n_points')
        c0n = Vo('self.points').n
        return [('counters', z3.And(
            Vn.int('self.n_sample') >= Vo.int('self.n_sample'),
            z3.Implies(c0n < n, Vn.int('self.n_sample') >=
                       Vo.int('self.n_sample') + 1000),
            z3.Implies(c0n >= n, z3.And(
                Vn.int('self.n_sample') == Vo.int('self.n_sample'),
                Vn.int('self.n_reject') == Vo.int('self.n_reject'))),
            Vn.int('self.n_reject') >= 0,
            Vn.int('self.n_reject') <= Vn.int('self.n_sample')))]
    reg.add_contract(FnContract(
        BQ + 'union.Union.sample', params=['n_points'],
        defaults=dict(n_points=100), pre=pre_call, post=post_call,
        result=result_call, mod_fields=['points', 'n_sample', 'n_reject'],
        mod_ghost=['rng']))

    def env_v(ex_, st):
        return dict(self=assume_inv(ex_, st))

    def post_v(Vo, Vn, res):
        lv = U.S(Vo, 'log_v_all')
        ns, nr = Vn.int('self.n_sample'), Vn.int('self.n_reject')
        return [('U6_volume_is_member_sum_times_accepted_fraction', z3.And(
            ns > 0, zv(res, 'real') == lse_term(Vn.st, lv) + f_log(
                1 - z3.ToReal(nr) / z3.ToReal(ns)))),
            ('U6_no_draw_when_counters_exist', z3.Implies(
                Vo.int('self.n_sample') != 0, z3.And(
                    ns == Vo.int('self.n_sample'),
                    nr == Vo.int('self.n_reject'))))]
    cv = FnContract(BQ + 'union.Union.log_v', post=post_v,
                    mod_fields=['points', 'n_sample', 'n_reject'],
                    mod_ghost=['rng'])
    verify_function(ex, BQ + 'union.Union.log_v', cv, env_v)
    fn_entry(fe, info, BQ + 'union.Union.log_v')


# ---------------------------------------------------------------------------

def nautilus_units(cx, fe, info):
    reg = new_registry(fe)
    G = {}
    N.install_nautilus_theory(reg, G)
    LVU = z3.Function('outer_log_v', N.UnionB, z3.IntSort(), z3.IntSort(),
                      z3.RealSort())
    prev = reg.getattr_hook

    def getattr_hook(ex, st, o, d, name, node):
        if isinstance(d, Sym) and d.k == 'UnionB' and name == 'log_v':
            cnt = st.ghost.get('ub_counts', {})
            return Sym(LVU(d.t, I(cnt['n_sample']), I(cnt['n_reject'])),
                       'real')
        return prev(ex, st, o, d, name, node)
    reg.getattr_hook = getattr_hook
    ex = Executor(cx, fe, reg)
    Q = BQ + 'nautilus.NautilusBound.'

    def make(ex_, st):
        N.shift_axioms(st)
        u = fresh('UnionB', 'outer_union')
        nn = z3.Int(uid('n_neural'))
        st.assume(nn >= 1)
        nbs = A.fresh_slist(st, 'NeuralB', 'neural_bounds', n=nn)
        cache = A.fresh_arr(st, 'Pt', 'cache')
        G.update(outer=u.t, neural=nbs, shifted=False, cache0=cache)
        st.ghost['ub_counts'] = dict(n_sample=fresh('int', 'ub_ns0'),
                                     n_reject=fresh('int', 'ub_nr0'))
        f = dict(n_dim=fresh('int', 'n_dim'), shift=None,
                 neural_bounds=st.alloc(nbs, 'nbs'), outer_bound=u,
                 rng=Opaque('rng'), points=st.alloc(cache, 'cache'),
                 n_sample=fresh('int', 'n_sample'),
                 n_reject=fresh('int', 'n_reject'))
        self_ = st.alloc(ObjRec('NautilusBound', f), 'self')
        st.env = dict(self=self_)
        v = View(ex_, st)
        st.assume(z3.And(v.int('self.n_sample') >= 0,
                         v.int('self.n_reject') >= 0,
                         v.int('self.n_reject') <= v.int('self.n_sample')))
        for (nm, ff) in lazy_inv(v):
            st.assume(ff)
        G.update(ns0=v.int('self.n_sample'), nr0=v.int('self.n_reject'))
        return self_

    def step_serial(Vs, Ve):
        acc = Ve('points')
        c0, c1 = Vs('self.points'), Ve('self.points')
        return [('N1_counters', z3.And(
            Ve.int('self.n_sample') == Vs.int('self.n_sample') + 1000,
            Ve.int('self.n_reject') == Vs.int('self.n_reject') + 1000 -
            acc.n)),
            ('N1_accepted_rows_appended_in_order', z3.And(
                c1.n == c0.n + acc.n,
                A.forall_idx(c0.n, lambda j: c1.at(j) == c0.at(j)),
                A.forall_idx(acc.n, lambda j: c1.at(c0.n + j) == acc.at(j))))]

    def step_pool(Vs, Ve):
        b = Ve('bound')
        cs_, ce = Vs.st.ghost['ub_counts'], Ve.st.ghost['ub_counts']
        return [('N2_both_levels_of_counters_are_merged', z3.And(
            Ve.int('self.n_sample') == Vs.int('self.n_sample') + N.CNS(b.t, 0),
            Ve.int('self.n_reject') == Vs.int('self.n_reject') + N.CNS(b.t, 1),
            I(ce['n_sample']) == I(cs_['n_sample']) + N.CNS(b.t, 2),
            I(ce['n_reject']) == I(cs_['n_reject']) + N.CNS(b.t, 3))),
            ('N2_all_rows_of_the_worker_are_appended', Ve('self.points').n ==
             Vs('self.points').n + N.CPN(b.t))]

    def inv_common(V, k):
        c = V('self.points')
        return [('counters_monotone', z3.And(
            V.int('self.n_sample') >= G['ns0'],
            V.int('self.n_reject') >= 0)),
            ('no_round_no_change', z3.Implies(k == 0, z3.And(
                c.n == G['cache0'].n, V.int('self.n_sample') == G['ns0'],
                V.int('self.n_reject') == G['nr0'])))]

    def inv_serial(V):
        k = V.k(0)
        return inv_common(V, k) + [
            ('N1_thousand_proposals_per_round',
             V.int('self.n_sample') == G['ns0'] + 1000 * k),
            ('N1_rejections_bounded', z3.And(
                V.int('self.n_reject') >= G['nr0'],
                V.int('self.n_reject') - G['nr0'] <= 1000 * k))]

    def post_s(Vo, Vn, res):
        n = Vo.int('n_points')
        c0 = G['cache0']
        pooled = isinstance(Vo.raw('pool'), Opaque)
        out = [('counters_monotone', Vn.int('self.n_sample') >= G['ns0']),
               ('no_draw_when_cache_suffices', z3.Implies(c0.n >= n, z3.And(
                   Vn.int('self.n_sample') == G['ns0'],
                   Vn.int('self.n_reject') == G['nr0'])))]
        if not pooled:
            out.append(('N1_lazy_draw_sets_the_counters', z3.Implies(
                c0.n < n, Vn.int('self.n_sample') >= G['ns0'] + 1000)))
            out.append(('N1_counters_consistent', z3.And(
                Vn.int('self.n_reject') >= 0,
                Vn.int('self.n_reject') <= Vn.int('self.n_sample'))))
        return out
    for pooled in (False, True):
        def env_s(ex_, st, pooled=pooled):
            self_ = make(ex_, st)
            n = fresh('int', 'n_points')
            st.assume(n.t >= 0)
            return dict(self=self_, n_points=n,
                        return_points=fresh('bool', 'return_points'),
                        pool=Opaque('pool') if pooled else None)
        cs = FnContract(
            Q + 'sample', params=['n_points', 'return_points', 'pool'],
            defaults=dict(n_points=100, return_points=True, pool=None),
            post=post_s, mod_fields=['points', 'n_sample', 'n_reject'],
            mod_ghost=['rng', 'ub_counts'],
            loops={0: LoopSpec(inv=inv_serial, step=step_serial,
                               extra_mods=['$ub_counts']),
                   1: LoopSpec(inv=lambda V: inv_common(V, V.k(1)),
                               step=step_pool, extra_mods=['$ub_counts'])})
        verify_function(ex, Q + 'sample', cs, env_s,
                        tag='[pool]' if pooled else '[serial]')
    fn_entry(fe, info, Q + 'sample')

    # ---- log_v against the contract of sample(return_points=False)
    def pre_call(V):
        return [('counters', z3.And(V.int('self.n_sample') >= 0,
                                    V.int('self.n_reject') >= 0,
                                    V.int('self.n_reject') <=
                                    V.int('self.n_sample')))] + lazy_inv(V)

    def post_call(Vo, Vn, res):
        n = Vo.int('n_points')
        c0n = Vo('self.points').n
        return [('counters', z3.And(
            Vn.int('self.n_sample') >= Vo.int('self.n_sample'),
            z3.Implies(c0n < n, Vn.int('self.n_sample') >=
                       Vo.int('self.n_sample') + 1000),
            z3.Implies(c0n >= n, z3.And(
                Vn.int('self.n_sample') == Vo.int('self.n_sample'),
                Vn.int('self.n_reject') == Vo.int('self.n_reject'))),
            Vn.int('self.n_reject') >= 0,
            Vn.int('self.n_reject') <= Vn.int('self.n_sample')))]
    reg.add_contract(FnContract(
        Q + 'sample', params=['n_points', 'return_points', 'pool'],
        defaults=dict(n_points=100, return_points=True, pool=None),
        pre=pre_call, post=post_call,
        mod_fields=['points', 'n_sample', 'n_reject'],
        mod_ghost=['rng', 'ub_counts']))

    def env_v(ex_, st):
        return dict(self=make(ex_, st))

    def post_v(Vo, Vn, res):
        cnt = Vn.st.ghost['ub_counts']
        ns, nr = Vn.int('self.n_sample'), Vn.int('self.n_reject')
        return [('N3_volume_is_outer_volume_times_accepted_fraction', z3.And(
            ns > 0, zv(res, 'real') == LVU(
                G['outer'], I(cnt['n_sample']), I(cnt['n_reject'])) +
            f_log(1 - z3.ToReal(nr) / z3.ToReal(ns)))),
            ('N3_no_draw_when_counters_exist', z3.Implies(
                Vo.int('self.n_sample') != 0, z3.And(
                    ns == Vo.int('self.n_sample'),
                    nr == Vo.int('self.n_reject'))))]
    verify_function(ex, Q + 'log_v', FnContract(
        Q + 'log_v', post=post_v, mod_fields=['points', 'n_sample',
                                              'n_reject'],
        mod_ghost=['rng', 'ub_counts']), env_v)
    fn_entry(fe, info, Q + 'log_v')


def build(cx, fe, tier, info, only=None):
    if only in (None, 'Ellipsoid'):
        ellipsoid_units(cx, fe, info)
    if only in (None, 'Union'):
        union_units(cx, fe, info)
    if only in (None, 'NautilusBound'):
        nautilus_units(cx, fe, info)
    if only in (None, 'Mixture'):
        from .C07_mixture import mixture_units
        mixture_units(cx, fe, info, refinement=True)
    if only in (None, 'Union.restructure'):
        # the counters always describe the current geometry: compute / split /
        # trim (contracts shared with C13) end with an empty cache and zero
        # counters, so the accepted fraction in log_v is never a leftover of
        # an earlier set of members
        from . import C13
        for u in ('compute', 'trim', 'split'):
            info3 = dict(functions=[])
            C13.build(cx, fe, tier, info3, only=u)
            info['functions'] = info.get('functions', []) + \
                info3['functions']
    info['assumptions'] = [
        'C08: UnitCubeEllipsoidMixture: the sample is the join of a cube-part '
        'draw and an ellipsoid-part draw (M1), log_v is the ellipsoid volume '
        '(M2): product of two uniform distributions is uniform on the product '
        '(probabilistic lemma, assumed)',
        'C08: the probabilistic lemma (volume-proportional component choice + '
        'acceptance with probability 1/multiplicity gives a uniform '
        'distribution on the union; the accepted fraction estimates the volume '
        'ratio; z/|z| u^(1/d) is uniform in the unit ball) is NOT '
        'machine-checked: only the refinement of that reference algorithm is',
        'C08: log 2 + lnGamma(3/2) = (1/2) log pi (numeric fact about the '
        'uninterpreted log / gammaln)',
        'C08: numpy Generator draws are independent and have the documented '
        'distributions',
        'C08: serial NautilusBound round counts the outer proposals only '
        '(N1); the pool path merges worker counters (N2); worker behaviour '
        '(_reset_and_sample) is covered by the serial contract on a copy',
    ]


_cache = {}


def replay(r, tier, seed):
    from .common import run_runtime
    if 'rt' not in _cache:
        _cache['rt'] = run_runtime('check_c08.py', ['quick'], timeout=1500)
    return _cache['rt']


def bounded(tier, seed):
    from .common import run_runtime
    rt = run_runtime('check_c08.py', ['full' if tier == 'thorough'
                                      else 'quick'], timeout=3000)
    _cache['rt'] = rt
    viol = [dict(id='calibration', **rt)] if rt.get('found') else []
    return [dict(name='C08/bounded/statistics',
                 what='fixed-seed statistical test on real bounds: occupancy '
                      'of equal-volume cells under Ellipsoid / Union / '
                      'NautilusBound.sample (chi-square, alarm only below '
                      'p = 1e-9) and exp(log_v) against a Monte-Carlo volume',
                 bound='dims 2,3,5; 2-4 overlapping members; 2e5 draws',
                 observed=rt.get('observed'), error=rt.get('error'),
                 violations=viol)]
