"""C09 - writing and reading back any bound preserves its behaviour.

Per class X the real X.write is executed symbolically on an arbitrary object
and an empty HDF5 group (pyvc/h5.py), then the real X.read is executed on the
resulting group with a given generator; obligations: read terminates normally,
every field the bound's behaviour depends on is DEFINED and equal to the
original, every generator reference is the given one. contains / log_v / the
future sample stream are functions of exactly those fields and the generator
(their own contracts), so field equality carries the behavioural statement.
Sub-bounds of Union / NautilusBound are abstract (their own round trip is
proved by their class's unit).
"""
import z3

from pyvc.core import (State, Sym, Arr, Arr2, LArr, SList, PyList, ObjRec, Ref,
                       Opaque, ClassVal, fresh, fresh_fn, uid, I, B, sort_of,
                       OutsideSubset)
from pyvc import arrays as A
from pyvc import h5
from pyvc.npmodel import MaybeNone
from pyvc.registry import FnContract
from pyvc.symexec import Executor, LoopSpec, View, Lib, PyCallable
from pyvc.verify import values_equal, short
from .common import new_registry, fn_entry

OBLIGATION_FLOOR = 20
Z3_TIMEOUT_MS = 30000
UNITS = ['UnitCube', 'Ellipsoid', 'PhaseShift', 'Mixture', 'Union', 'NeuralBound',
         'NautilusBound', 'NautilusBound.update',
         'Union.update']
BRANCH_COVERED_FUNCTIONS = ()
DEAD_BRANCHES = ()
_EX = {}


def _branch_cov():
    return _EX['ex'].branch_cov if 'ex' in _EX else []


def _branch_all():
    return _EX['ex'].branch_all if 'ex' in _EX else []


BQ = 'nautilus.bounds.'


def roundtrip(ex, cx, fe, info, cls, mod, make_obj, fields, tag='',
              loops_w=None, loops_r=None, rng_fields=('rng',), extra=None):
    """write(obj, empty group); read(group, rng=G); compare."""
    qw = '{}{}.{}.write'.format(BQ, mod, cls)
    qr = '{}{}.{}.read'.format(BQ, mod, cls)
    cx.prefix = '{}.roundtrip{}/'.format(cls, tag)
    st = State()
    n0 = len(cx.obligations)
    try:
        obj = make_obj(ex, st)
        group = h5.new_group(st)
        G = Opaque('rng')
        st.env = dict(self=obj, group=group)
        cx.cover(st, 'pre_satisfiable')
        outs = ex.run_function(fe.get(qw), st, loops_w)
        finals = []
        for o in outs:
            if o.status != 'return':
                cx.oblige(o, 'write_does_not_raise/{}'.format(o.exc),
                          z3.BoolVal(False), kind='no_raise')
                continue
            o.status = 'normal'
            o.env = dict(cls=ClassVal(cls), group=group, rng=G)
            for r in ex.run_function(fe.get(qr), o, loops_r):
                finals.append(r)
        for r in finals:
            if r.status != 'return':
                cx.oblige(r, 'read_does_not_raise/{}'.format(r.exc),
                          z3.BoolVal(False), kind='no_raise')
                continue
            cx.cover(r, 'exit_reachable/' + '.'.join(r.trace[-5:]))
            o2 = r.retval
            if not (isinstance(o2, Ref) and isinstance(r.cell(o2), ObjRec)):
                cx.oblige(r, 'read_returns_object', z3.BoolVal(False))
                continue
            rec1, rec2 = r.cell(obj), r.cell(o2)
            cx.oblige(r, 'class_restored', z3.BoolVal(rec2.cls == cls),
                      kind='post')
            for f in fields:
                if f not in rec2.fields:
                    cx.oblige(r, 'field_defined/' + f, z3.BoolVal(False),
                              kind='post')
                    continue
                e = values_equal(ex, r, rec1.fields[f], r, rec2.fields[f])
                cx.oblige(r, 'field_restored/' + f,
                          z3.BoolVal(True) if e is None else e, kind='post')
            for f in rng_fields:
                v = rec2.fields.get(f)
                cx.oblige(r, 'generator_is_the_given_one/' + f, z3.BoolVal(
                    v is G), kind='post')
            if extra is not None:
                extra(ex, cx, r, rec1, rec2, G)
    except OutsideSubset as e:
        del cx.obligations[n0:]
        cx.oblige(State(), 'in_subset', z3.BoolVal(False), kind='in_subset',
                  reason='OutsideSubset: {} (line {})'.format(
                      e, getattr(e.node, 'lineno', cx.line)))
    cx.prefix = ''
    fn_entry(fe, info, qw)
    fn_entry(fe, info, qr)


def arr(st, k, name, n=None):
    return st.alloc(A.fresh_arr(st, k, name, n=n), name)


def make_unitcube(ex, st):
    return st.alloc(ObjRec('UnitCube', dict(
        n_dim=fresh('int', 'n_dim'), rng=Opaque('rng_old'))), 'uc')


def make_ellipsoid(ex, st):
    nd = fresh('int', 'n_dim')
    return st.alloc(ObjRec('Ellipsoid', dict(
        n_dim=nd, c=arr(st, 'real', 'c'),
        A=st.alloc(A.fresh_arr2(st, None, None, 'A'), 'A'),
        B=st.alloc(A.fresh_arr2(st, None, None, 'B'), 'B'),
        B_inv=st.alloc(A.fresh_arr2(st, None, None, 'B_inv'), 'B_inv'),
        rng=Opaque('rng_old'))), 'ell')


def make_phaseshift(ex, st):
    return st.alloc(ObjRec('PhaseShift', dict(
        periodic=arr(st, 'int', 'periodic'),
        centers=arr(st, 'real', 'centers'))), 'ps')


def make_mixture(cube_none, ell_none):
    def mk(ex, st):
        nd = fresh('int', 'n_dim')
        st.assume(nd.t >= 1)
        dc = A.fresh_arr(st, 'bool', 'dim_cube', n=nd.t)
        # class invariant (established by compute): the cube part exists iff
        # some dimension is a cube dimension, the ellipsoid part iff not all
        cnt = A.count(st, dc)
        st.assume((cnt > 0) == z3.BoolVal(not cube_none))
        st.assume((cnt == dc.n) == z3.BoolVal(ell_none))
        f = dict(n_dim=nd, dim_cube=st.alloc(dc, 'dim_cube'))
        f['cube'] = None if cube_none else make_unitcube(ex, st)
        f['ellipsoid'] = None if ell_none else make_ellipsoid(ex, st)
        return st.alloc(ObjRec('UnitCubeEllipsoidMixture', f), 'mix')
    return mk


def sub_equal(name, fields):
    def extra(ex, cx, r, rec1, rec2, G):
        if name not in rec2.fields:
            # the attribute is never assigned on this path: any later use
            # (contains / sample) raises AttributeError
            cx.oblige(r, 'field_defined/' + name, z3.BoolVal(False),
                      kind='post')
            return
        a, b = rec1.fields.get(name), rec2.fields.get(name)
        if a is None or b is None:
            cx.oblige(r, 'sub_bound_none_iff/' + name,
                      z3.BoolVal(a is None and b is None), kind='post')
            return
        ra, rb = r.cell(a), r.cell(b)
        for f in fields:
            if f not in rb.fields:
                cx.oblige(r, 'field_defined/{}.{}'.format(name, f),
                          z3.BoolVal(False), kind='post')
                continue
            e = values_equal(ex, r, ra.fields[f], r, rb.fields[f])
            cx.oblige(r, 'field_restored/{}.{}'.format(name, f),
                      z3.BoolVal(True) if e is None else e, kind='post')
        cx.oblige(r, 'generator_is_the_given_one/{}.rng'.format(name),
                  z3.BoolVal(rb.fields.get('rng') is G), kind='post')
    return extra


def build(cx, fe, tier, info, only=None):
    reg = new_registry(fe)
    h5.install(reg)
    for q in ('basic.UnitCube.write', 'basic.UnitCube.read',
              'basic.Ellipsoid.write', 'basic.Ellipsoid.read'):
        reg.inline.add(BQ + q)
    reg.lib['np.random.default_rng'] = lambda e, s, a, k, n: Opaque(
        'rng_unseeded')
    ex = Executor(cx, fe, reg)
    _EX['ex'] = ex
    if only in (None, 'UnitCube'):
        roundtrip(ex, cx, fe, info, 'UnitCube', 'basic', make_unitcube,
                  ['n_dim'])
    if only in (None, 'Ellipsoid'):
        roundtrip(ex, cx, fe, info, 'Ellipsoid', 'basic', make_ellipsoid,
                  ['n_dim', 'c', 'A', 'B', 'B_inv'])
    if only in (None, 'PhaseShift'):
        roundtrip(ex, cx, fe, info, 'PhaseShift', 'periodic', make_phaseshift,
                  ['periodic', 'centers'], rng_fields=())
    if only in (None, 'Mixture'):
        for cn, en in ((False, False), (True, False), (False, True)):
            def extra(ex_, cx_, r, rec1, rec2, G):
                sub_equal('cube', ['n_dim'])(ex_, cx_, r, rec1, rec2, G)
                sub_equal('ellipsoid', ['n_dim', 'c', 'A', 'B', 'B_inv'])(
                    ex_, cx_, r, rec1, rec2, G)
            roundtrip(ex, cx, fe, info, 'UnitCubeEllipsoidMixture', 'basic',
                      make_mixture(cn, en), ['n_dim', 'dim_cube'],
                      tag='[cube={},ellipsoid={}]'.format(not cn, not en),
                      rng_fields=(), extra=extra)
    if only in (None, 'Union'):
        from .C09_union import union_units
        union_units(cx, fe, info, reg, ex)
    if only in (None, 'Union.update'):
        from .C09_union import union_update_unit
        union_update_unit(cx, fe, info)
    if only in (None, 'NeuralBound'):
        from .C09_nautilus import neural_units
        neural_units(cx, fe, info)
    if only in (None, 'NautilusBound'):
        from .C09_nautilus import nautilus_units
        nautilus_units(cx, fe, info)
    if only in (None, 'NautilusBound.update'):
        from .C09_nautilus import nautilus_update_unit
        nautilus_update_unit(cx, fe, info)
    info['inlined'] = sorted(reg.inlined)
    info['assumptions'] = [
        'C09: h5py stores and returns scalars, strings and arrays exactly; a '
        'group contains exactly what was written into it (closed world)',
        'C09: contains / log_v / sample of a bound are functions of the fields '
        'compared here and of the generator (their own contracts: C07/C08)',
        'C09: NeuralNetworkEmulator.write/read iterate sklearn internals: '
        'outside the subset; its round trip is an assumed contract of the '
        'NeuralBound unit, bounded by check_c09.py and '
        'tests/test_io.py::test_neural_io',
        'C09: components (Ellipsoid, Union, NeuralBound) inside NeuralBound / '
        'NautilusBound are abstract values with the round-trip law proved by '
        'their own units',
    ]


_cache = {}


def replay(r, tier, seed):
    from .common import run_runtime
    if 'rt' not in _cache:
        _cache['rt'] = run_runtime('check_c09.py', [])
    return _cache['rt']


def bounded(tier, seed):
    from .common import run_runtime
    rt = run_runtime('check_c09.py', [])
    viol = [dict(id='roundtrip', **rt)] if rt.get('found') else []
    return [dict(name='C09/bounded/real_round_trips',
                 what='write/read round trip on real objects of every class '
                      'incl. NeuralBound-backed NautilusBound (0/1 networks, '
                      'periodic or not), split + partly sampled unions: '
                      'contains identical on 2000 probe points, log_v and '
                      'sample stream identical for the basic classes',
                 bound='13 objects', observed=rt.get('observed'),
                 error=rt.get('error'), violations=viol)]
