"""C09: NeuralBound and NautilusBound write / read / update.

Components that have their own round-trip units (Ellipsoid, Union, PhaseShift)
or are outside the subset (NeuralNetworkEmulator: sklearn internals) are
abstract values: `x.write(g)` stores the token TREE(x) in g, `Cls.read(g)`
returns UNTREE(token), with the round-trip law UNTREE(TREE(x)) == x as the
assumed contract (proved for Ellipsoid / Union / PhaseShift by their units in
this file's siblings; bounded for the emulator). What is proved here is that
the real bodies of NeuralBound.write/read and NautilusBound.write/read/update
store and restore EVERY field, dispatch every component to the reader of its
own class with the right generator, and create / look up every HDF5 name
consistently (including the `neural_bound_{i}` family scanned by a while
loop)."""
import ast
import z3

from pyvc.core import (State, Sym, Arr, SList, PyList, ObjRec, Ref, Opaque,
                       ClassVal, fresh, fresh_fn, uid, I, B, sort_of,
                       OutsideSubset, Raised)
from pyvc import arrays as A
from pyvc import h5
from pyvc.registry import FnContract
from pyvc.symexec import Executor, LoopSpec, View, Lib, PyCallable
from pyvc.verify import values_equal
from .common import new_registry, fn_entry
from .C09_union import Tree, trees_equal, h5_havoc

BQ = 'nautilus.bounds.'
SORTS = {            # class name -> abstract sort
    'Ellipsoid': 'Member', 'NeuralNetworkEmulator': 'Emu',
    'NeuralBound': 'NeuralB', 'Union': 'UnionB'}
TREE = {s: z3.Function('tree_of_' + s, sort_of(s), Tree)
        for s in SORTS.values()}
UNTREE = {s: z3.Function(s + '_of_tree', Tree, sort_of(s))
          for s in SORTS.values()}


def axioms(st):
    for s in SORTS.values():
        x = z3.Const('x!' + s, sort_of(s))
        st.assume(z3.ForAll([x], UNTREE[s](TREE[s](x)) == x))


def install_abstract_io(reg, G, abstract):
    """`abstract`: class names handled as abstract values in this unit"""
    def store(ex, st, h, tok, node):
        if isinstance(h, h5.FamElem):
            g = st.cell(h.gref).clone()
            fam = g.fams[h.prefix]
            old, idx = fam.at, h.idx
            g.fams[h.prefix] = h5.Family('group', fam.n, lambda i: z3.If(
                i == idx, tok, old(i)))
            st.set_cell(h.gref, g)
            return
        if isinstance(h, Ref) and isinstance(st.cell(h), h5.H5Group):
            g = st.cell(h)
            if g.attrs or g.dsets or g.groups or g.fams or g.token is not None:
                raise OutsideSubset('component written into a used group',
                                    node)
            g = g.clone()
            g.token = tok
            st.set_cell(h, g)
            return
        raise OutsideSubset('component write target {!r}'.format(h), node)

    def load(ex, st, h, node):
        if isinstance(h, h5.FamElem):
            return st.cell(h.gref).fams[h.prefix].at(h.idx)
        if isinstance(h, Ref) and isinstance(st.cell(h), h5.H5Group):
            tok = st.cell(h).token
            if tok is None:
                # a group written field by field read as an abstract value
                ex.cx.oblige(st, 'call_pre/read/group_was_written_by_the_'
                             'matching_writer@L{}'.format(getattr(
                                 node, 'lineno', 0)), z3.BoolVal(False),
                             kind='call_pre')
                return z3.Const(uid('unknown_tree'), Tree)
            return tok
        raise OutsideSubset('component read source {!r}'.format(h), node)

    for cls in abstract:
        s = SORTS[cls]

        def m_write(ex, st, m, args, kw, node, s=s):
            store(ex, st, args[0], TREE[s](m.t), node)
            return None
        reg.sort_methods[(s, 'write')] = m_write

        def m_update(ex, st, m, args, kw, node, s=s):
            # contract of Union.update (unit Union.update): the group then
            # holds what a full write of the current object would hold
            h = args[0]
            if not (isinstance(h, Ref) and isinstance(st.cell(h),
                                                      h5.H5Group)):
                raise OutsideSubset('component update target', node)
            g = st.cell(h).clone()
            ex.need(st)('update_of_a_written_component', z3.BoolVal(
                g.token is not None))
            g.token = TREE[s](m.t)
            st.set_cell(h, g)
            return None
        reg.sort_methods[(s, 'update')] = m_update
        reg.globals[cls] = ClassVal(cls)
    WROTE = z3.Function('written_by_class', Tree, z3.IntSort())
    G['WROTE'] = WROTE
    cls_id = {c: i for i, c in enumerate(sorted(SORTS))}

    def reader(cls):
        s = SORTS[cls]

        def call(ex, st, args, kw, node):
            tok = load(ex, st, args[0], node)
            ln = getattr(node, 'lineno', 0)
            # closed world: the token was produced by the writer of this class
            ex.cx.oblige(st, 'call_pre/{}.read/class_matches@L{}'.format(
                cls, ln), WROTE(tok) == cls_id[cls], kind='call_pre')
            if cls != 'NeuralNetworkEmulator':
                rng = kw.get('rng')
                ex.cx.oblige(st, 'call_pre/{}.read/shared_generator@L{}'
                             .format(cls, ln), z3.BoolVal(
                                 rng is not None and rng is G.get('rng')),
                             kind='call_pre')
            return Sym(UNTREE[s](tok), s)
        return call
    prev = reg.getattr_hook

    def getattr_hook(ex, st, o, d, name, node):
        if isinstance(d, ClassVal) and d.name in abstract and name == 'read':
            return PyCallable(reader(d.name))
        if prev is not None:
            return prev(ex, st, o, d, name, node)
        return NotImplemented
    reg.getattr_hook = getattr_hook

    def wrote_axioms(st):
        for cls in SORTS:
            s = SORTS[cls]
            x = z3.Const('x!' + s, sort_of(s))
            st.assume(z3.ForAll([x], WROTE(TREE[s](x)) == cls_id[cls]))
    G['wrote_axioms'] = wrote_axioms


def capture_rng(ex, G):
    orig = ex.run_function

    def run_function(fs, st, loops=None):
        if fs.qualname.endswith('.read') and 'rng' in st.env and \
                G.get('top_read') is None:
            G['rng'] = st.env.get('rng')
            G['top_read'] = fs.qualname
        return orig(fs, st, loops)
    ex.run_function = run_function


# ---------------------------------------------------------------------------

def neural_units(cx, fe, info):
    from .C09 import roundtrip
    for with_emulator in (False, True):
        reg = new_registry(fe)
        h5.install(reg)
        G = dict(rng=None, top_read=None)
        install_abstract_io(reg, G, ['Ellipsoid', 'NeuralNetworkEmulator'])
        reg.lib['np.random.default_rng'] = lambda e, s, a, k, n: Opaque(
            'rng_unseeded')
        ex = Executor(cx, fe, reg)
        capture_rng(ex, G)

        def mk(ex_, st, with_emulator=with_emulator, G=G):
            axioms(st)
            G['wrote_axioms'](st)
            G['top_read'] = None
            f = dict(n_dim=fresh('int', 'n_dim'),
                     score_predict_min=fresh('real', 'score_predict_min'),
                     outer_bound=fresh('Member', 'outer_ellipsoid'),
                     emulator=fresh('Emu', 'emulator') if with_emulator
                     else None)
            return st.alloc(ObjRec('NeuralBound', f), 'nb')

        def extra(ex_, cx_, r, rec1, rec2, Grng):
            a, b = rec1.fields['emulator'], rec2.fields.get('emulator', '?')
            cx_.oblige(r, 'emulator_none_iff', z3.BoolVal(
                (a is None) == (b is None) and b != '?'), kind='post')
        roundtrip(ex, cx, fe, info, 'NeuralBound', 'neural', mk,
                  ['n_dim', 'score_predict_min', 'outer_bound'] +
                  (['emulator'] if with_emulator else []),
                  tag='[emulator={}]'.format(with_emulator), rng_fields=(),
                  extra=extra)


def nb_write_loops(G):
    def prepare(ex, st):
        gref = st.env['group']
        g = st.cell(gref)
        if 'neural_bound_' not in g.fams:
            g = g.clone()
            g.fams['neural_bound_'] = h5.Family(
                'group', z3.IntVal(0), lambda i: z3.Const('no_tree', Tree))
            st.set_cell(gref, g)

    def inv(V):
        nbs = V('self.neural_bounds')
        kk = V.k(0)
        fam = V('group').fams.get('neural_bound_')
        if fam is None:
            return [('no_neural_bound_written_yet', kk == 0)]
        return [('neural_bounds_written', z3.And(fam.n == kk, A.forall_idx(
            kk, lambda t: fam.at(t) == TREE['NeuralB'](nbs.at(t)))))]
    return {0: LoopSpec(inv=inv, prepare=prepare, h5_fams=['neural_bound_'])}


def nb_read_loops(G):
    def prepare(ex, st):
        b = st.env['bound']
        v = st.cell(b).fields['neural_bounds']
        d = st.cell(v)
        if isinstance(d, PyList) and not d.items:
            st.set_cell(v, SList(0, lambda i: z3.Const(
                'no_neural', sort_of('NeuralB')), 'NeuralB'))

    def inv(V):
        kk = V.k(0)
        lst = V('bound.neural_bounds')
        fam = V('group').fams.get('neural_bound_')
        n = fam.n if fam is not None else z3.IntVal(0)
        out = [('counter_is_the_iteration', V.int('i') == kk),
               ('not_past_the_family', kk <= n),
               ('one_neural_bound_per_iteration', lst.n == kk)]
        if fam is not None:
            out.append(('neural_bounds_read_in_order', A.forall_idx(
                kk, lambda t: lst.at(t) == UNTREE['NeuralB'](fam.at(t)))))
        return out
    return {0: LoopSpec(inv=inv, prepare=prepare)}


def make_nautilus(ex, st, G, shifted):
    axioms(st)
    G['wrote_axioms'](st)
    G['top_read'] = None
    nn = z3.Int(uid('n_neural'))
    st.assume(nn >= 0)
    nd = fresh('int', 'n_dim')
    st.assume(nd.t >= 1)
    f = dict(n_dim=nd,
             neural_bounds=st.alloc(A.fresh_slist(
                 st, 'NeuralB', 'neural_bounds', n=nn), 'nbs'),
             outer_bound=fresh('UnionB', 'outer_union'),
             points=st.alloc(A.fresh_arr(st, 'Pt', 'cache'), 'cache'),
             n_sample=fresh('int', 'n_sample'),
             n_reject=fresh('int', 'n_reject'), rng=Opaque('rng_old'))
    if shifted:
        f['shift'] = st.alloc(ObjRec('PhaseShift', dict(
            periodic=st.alloc(A.fresh_arr(st, 'int', 'periodic'), 'periodic'),
            centers=st.alloc(A.fresh_arr(st, 'real', 'centers'), 'centers'))),
            'shift')
    else:
        f['shift'] = None
    return st.alloc(ObjRec('NautilusBound', f), 'nautilus')


def nautilus_registry(cx, fe, G):
    reg = new_registry(fe)
    h5.install(reg)
    install_abstract_io(reg, G, ['NeuralBound', 'Union'])
    for q in ('periodic.PhaseShift.write', 'periodic.PhaseShift.read'):
        reg.inline.add(BQ + q)
    reg.h5_havoc = h5_havoc
    reg.lib['np.random.default_rng'] = lambda e, s, a, k, n: Opaque(
        'rng_unseeded')
    ex = Executor(cx, fe, reg)
    capture_rng(ex, G)
    return reg, ex


def nautilus_units(cx, fe, info):
    from .C09 import roundtrip
    for shifted in (False, True):
        G = dict(rng=None, top_read=None)
        reg, ex = nautilus_registry(cx, fe, G)

        def mk(ex_, st, shifted=shifted, G=G):
            return make_nautilus(ex_, st, G, shifted)

        def extra(ex_, cx_, r, rec1, rec2, Grng):
            a, b = rec1.fields['shift'], rec2.fields.get('shift', '?')
            if b == '?':
                cx_.oblige(r, 'field_defined/shift', z3.BoolVal(False),
                           kind='post')
                return
            cx_.oblige(r, 'shift_none_iff', z3.BoolVal(
                (a is None) == (b is None)), kind='post')
            if a is not None and b is not None:
                ra, rb = r.cell(a), r.cell(b)
                for f in ('periodic', 'centers'):
                    e = values_equal(ex_, r, ra.fields[f], r,
                                     rb.fields.get(f))
                    cx_.oblige(r, 'field_restored/shift.' + f,
                               z3.BoolVal(True) if e is None else e,
                               kind='post')
        roundtrip(ex, cx, fe, info, 'NautilusBound', 'nautilus', mk,
                  ['n_dim', 'neural_bounds', 'outer_bound', 'points',
                   'n_sample', 'n_reject'],
                  tag='[periodic={}]'.format(shifted),
                  loops_w=nb_write_loops(G), loops_r=nb_read_loops(G),
                  extra=extra)


def nautilus_update_unit(cx, fe, info):
    """update(write(b0), b1) == write(b1) whenever b1 differs from b0 only in
    what sample() modifies (cache, counters, proposal state of the outer
    union)"""
    Q = BQ + 'nautilus.NautilusBound.'
    for shifted in (False, True):
        G = dict(rng=None, top_read=None)
        reg, ex = nautilus_registry(cx, fe, G)
        cx.prefix = 'NautilusBound.update[periodic={}]/'.format(shifted)
        st = State()
        n0 = len(cx.obligations)
        try:
            self_ = make_nautilus(ex, st, G, shifted)
            g1 = h5.new_group(st)
            st.env = dict(self=self_, group=g1)
            cx.cover(st, 'pre_satisfiable')
            for o in ex.run_function(fe.get(Q + 'write'), st,
                                     nb_write_loops(G)):
                if o.status != 'return':
                    cx.oblige(o, 'write_does_not_raise', z3.BoolVal(False))
                    continue
                rec = o.cell(self_)
                # exactly the modifies set of NautilusBound.sample (C07/C08)
                rec.fields['points'] = o.alloc(A.fresh_arr(o, 'Pt', 'cache2'),
                                               'cache2')
                rec.fields['n_sample'] = fresh('int', 'n_sample2')
                rec.fields['n_reject'] = fresh('int', 'n_reject2')
                rec.fields['outer_bound'] = fresh('UnionB', 'outer_sampled')
                o.status = 'normal'
                o.env = dict(self=self_, group=g1)
                for u in ex.run_function(fe.get(Q + 'update'), o, None):
                    if u.status != 'return':
                        cx.oblige(u, 'update_does_not_raise/{}'.format(u.exc),
                                  z3.BoolVal(False))
                        continue
                    g2 = h5.new_group(u)
                    u.status = 'normal'
                    u.env = dict(self=self_, group=g2)
                    for w in ex.run_function(fe.get(Q + 'write'), u,
                                             nb_write_loops(G)):
                        if w.status != 'return':
                            continue
                        cx.cover(w, 'exit_reachable')
                        for (nm, f) in trees_equal(ex, w, g1, g2):
                            cx.oblige(w, 'update_equals_full_write/' + nm, f,
                                      kind='post')
        except OutsideSubset as e:
            del cx.obligations[n0:]
            cx.oblige(State(), 'in_subset', z3.BoolVal(False),
                      kind='in_subset', reason='OutsideSubset: {} (line '
                      '{})'.format(e, getattr(e.node, 'lineno', cx.line)))
        cx.prefix = ''
    fn_entry(fe, info, Q + 'update')
