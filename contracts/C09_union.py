"""C09: Union write / read / update with abstract member bounds."""
import ast
import z3

from pyvc.core import (State, Sym, Arr, Arr2, LArr, SList, PyList, ObjRec, Ref,
                       Opaque, ClassVal, fresh, fresh_fn, uid, I, B, sort_of,
                       OutsideSubset, Raised)
from pyvc import arrays as A
from pyvc import h5
from pyvc.npmodel import MaybeNone
from pyvc.registry import FnContract, Registry
from pyvc.symexec import Executor, LoopSpec, View, Lib, PyCallable
from pyvc.verify import values_equal
from .common import new_registry, fn_entry
from . import union_model as U

Tree = sort_of('Tree')
Str = sort_of('Str')
TREE = z3.Function('member_tree', U.Member, Tree)        # what member.write puts
UNTREE = z3.Function('member_of_tree', Tree, U.Member)   # what member.read gets
CLSNAME = z3.Function('class_name', U.Member, Str)
ELL_NAME = z3.Const('str_Ellipsoid', Str)
UQ = 'nautilus.bounds.union.Union.'


def member_axioms(st):
    m = z3.Const('m!q', U.Member)
    # round trip of the member classes (proved by their own units)
    st.assume(z3.ForAll([m], UNTREE(TREE(m)) == m))
    st.assume(z3.ForAll([m], U.is_ell(m) == (CLSNAME(m) == ELL_NAME)))


def install_member_io(reg, G):
    def m_write(ex, st, m, args, kw, node):
        h = args[0]
        if not isinstance(h, h5.FamElem):
            raise OutsideSubset('member.write target', node)
        g = st.cell(h.gref).clone()
        fam = g.fams[h.prefix]
        old = fam.at
        idx, t = h.idx, TREE(m.t)
        g.fams[h.prefix] = h5.Family('group', fam.n, lambda i: z3.If(
            i == idx, t, old(i)))
        st.set_cell(h.gref, g)
        return None
    reg.sort_methods[('Member', 'write')] = m_write

    def read_contract(cls, is_ell_expected):
        def call(ex, st, args, kw, node):
            h = args[0]
            if not isinstance(h, h5.FamElem):
                raise OutsideSubset('member.read source', node)
            fam = st.cell(h.gref).fams[h.prefix]
            tok = fam.at(h.idx)
            m = UNTREE(tok)
            # the class that reads must be the class that wrote
            ex.cx.oblige(st, 'call_pre/{}.read/class_matches@L{}'.format(
                cls, getattr(node, 'lineno', 0)),
                U.is_ell(m) == z3.BoolVal(is_ell_expected), kind='call_pre')
            rng = kw.get('rng')
            ex.cx.oblige(st, 'call_pre/{}.read/shared_generator@L{}'.format(
                cls, getattr(node, 'lineno', 0)),
                z3.BoolVal(rng is G.get('rng')), kind='call_pre')
            return Sym(m, 'Member')
        return call
    G['read_ell'] = read_contract('Ellipsoid', True)
    G['read_mix'] = read_contract('UnitCubeEllipsoidMixture', False)
    prev_getattr = reg.getattr_hook

    def getattr_hook(ex, st, o, d, name, node):
        if isinstance(d, Sym) and d.k == 'Member' and name == '__class__':
            return Opaque('memberclass')
        if isinstance(d, Opaque) and d.what == 'memberclass' and \
                name == '__name__':
            return G['cls_of']
        if isinstance(d, ClassVal) and name == 'read' and d.name in (
                'Ellipsoid', 'UnitCubeEllipsoidMixture'):
            return PyCallable(G['read_ell'] if d.name == 'Ellipsoid'
                              else G['read_mix'])
        if prev_getattr is not None:
            return prev_getattr(ex, st, o, d, name, node)
        return NotImplemented
    reg.getattr_hook = getattr_hook

    def compare_hook(ex, st, op, a, b):
        if isinstance(a, Sym) and a.k == 'Str' and b == 'Ellipsoid' and \
                isinstance(op, ast.Eq):
            return Sym(a.t == ELL_NAME, 'bool')
        return NotImplemented
    reg.compare_hook = compare_hook


def make_union(ex, st, G, unit):
    self_ = U.make_union(ex, st, G)
    rec = st.cell(self_)
    if unit:
        rec.fields['cube'] = st.alloc(ObjRec('UnitCube', dict(
            n_dim=rec.fields['n_dim'], rng=Opaque('rng_old'))), 'cube')
    else:
        rec.fields['cube'] = None
    V = View(ex, st)
    st.env = dict(self=self_)
    for (nm, f) in U.InvU(V):
        st.assume(f)
    b = ex.deref(st, rec.fields['bounds'])
    G['cls_of'] = Sym(CLSNAME(b.at(0)), 'Str')
    return self_


def fam_of(V, prefix):
    g = V('group')
    return g.fams.get(prefix)


def write_loops(G):
    def inv1(V):
        b = V('self.bounds')
        kk = V.k(1)
        fam = fam_of(V, 'bound_')
        if fam is None:
            return [('no_member_written_yet', kk == 0)]
        return [('members_written', z3.And(fam.n == kk, A.forall_idx(
            kk, lambda t: fam.at(t) == TREE(b.at(t)))))]

    def inv2(V):
        pb = V('self.points_bounds')
        kk = V.k(2)
        fam = fam_of(V, 'points_bound_')
        if fam is None:
            return [('no_points_written_yet', kk == 0)]
        L = fam.at
        i, j = A.qi('i'), A.qi('j')
        return [('points_written', z3.And(
            fam.n == kk, A.forall_idx(kk, lambda t: L.alen(t) == pb.alen(t)),
            z3.ForAll([i, j], z3.Implies(
                z3.And(i >= 0, i < kk, j >= 0, j < pb.alen(i)),
                L.at(i, j) == pb.at(i, j)))))]
    def prep(prefix, kind):
        def prepare(ex, st):
            gref = st.env['group']
            g = st.cell(gref)
            if prefix not in g.fams:
                g = g.clone()
                if kind == 'group':
                    g.fams[prefix] = h5.Family('group', z3.IntVal(0),
                                               lambda i: z3.Const(
                                                   'no_tree', Tree))
                else:
                    g.fams[prefix] = h5.Family('dset', z3.IntVal(0), LArr(
                        0, lambda i: z3.IntVal(0),
                        lambda i, j: z3.Const('no_pt', U.Pt), 'Pt'))
                st.set_cell(gref, g)
        return prepare
    return {1: LoopSpec(inv=inv1, prepare=prep('bound_', 'group'),
                        h5_fams=['bound_']),
            2: LoopSpec(inv=inv2, prepare=prep('points_bound_', 'dset'),
                        h5_fams=['points_bound_'])}


def h5_havoc(ex, st, g, hint):
    """arbitrary-iteration state of a group inside a symbolic loop: literal
    entries are kept (loops only append to families), every family is fresh"""
    n = g.clone()
    only = st.ghost.get('h5_havoc_fams')
    for p, fam in list(g.fams.items()):
        if only is not None and p not in only:
            continue
        cnt = z3.Int(uid(p + 'n'))
        st.assume(cnt >= 0)
        if fam.kind == 'group':
            f = fresh_fn(['int'], 'Tree', p + 'tok')
            n.fams[p] = h5.Family('group', cnt, lambda i, f=f: f(i))
        else:
            L = A.fresh_larr(st, fam.at.k, p, n=cnt)
            n.fams[p] = h5.Family('dset', cnt, L)
    return n


def union_units(cx, fe, info, reg0, ex0):
    from .C09 import roundtrip, sub_equal, BQ
    for unit in (True, False):
        reg = new_registry(fe)
        h5.install(reg)
        U.install_member_api(reg, cx)
        G = {}
        G['rng'] = None
        install_member_io(reg, G)
        for q in ('basic.UnitCube.write', 'basic.UnitCube.read'):
            reg.inline.add(BQ + q)
        reg.h5_havoc = h5_havoc
        reg.lib['np.random.default_rng'] = lambda e, s, a, k, n: Opaque(
            'rng_unseeded')
        ex = Executor(cx, fe, reg)
        ex0.branch_cov, ex0.branch_all = ex.branch_cov, ex.branch_all

        def mk(ex_, st, unit=unit, G=G):
            member_axioms(st)
            return make_union(ex_, st, G, unit)

        def extra(ex_, cx_, r, rec1, rec2, Grng, unit=unit):
            sub_equal('cube', ['n_dim'])(ex_, cx_, r, rec1, rec2, Grng)

        class RngCapture(dict):
            pass
        # the generator handed to read() is the one the members must receive
        orig_run = ex.run_function

        def run_function(fs, st, loops=None, G=G):
            if fs.qualname.endswith('Union.read'):
                G['rng'] = st.env.get('rng')
            return orig_run(fs, st, loops)
        ex.run_function = run_function
        roundtrip(ex, cx, fe, info, 'Union', 'union', mk,
                  ['n_dim', 'log_v_all', 'enlarge_per_dim', 'n_points_min',
                   'n_sample', 'n_reject', 'bounds', 'points_bounds', 'points'],
                  tag='[unit={}]'.format(unit), loops_w=write_loops(G),
                  extra=extra)


# ---------------------------------------------------------------------------
# structural equality of two HDF5 trees

def trees_equal(ex, st, g1, g2, path=''):
    """list of (name, formula) stating that the two groups hold the same
    content"""
    out = []
    a, b = st.cell(g1), st.cell(g2)
    out.append((path + 'same_attribute_names', z3.BoolVal(
        sorted(a.attrs) == sorted(b.attrs))))
    for k in sorted(set(a.attrs) & set(b.attrs)):
        e = values_equal(ex, st, a.attrs[k], st, b.attrs[k])
        out.append((path + 'attr/' + k, z3.BoolVal(True) if e is None else e))
    out.append((path + 'same_dataset_names', z3.BoolVal(
        sorted(a.dsets) == sorted(b.dsets))))
    for k in sorted(set(a.dsets) & set(b.dsets)):
        e = values_equal(ex, st, a.dsets[k], st, b.dsets[k])
        out.append((path + 'dataset/' + k, z3.BoolVal(True) if e is None
                    else e))
    out.append((path + 'same_group_names', z3.BoolVal(
        sorted(a.groups) == sorted(b.groups) and
        sorted(a.fams) == sorted(b.fams))))
    for k in sorted(set(a.groups) & set(b.groups)):
        out += trees_equal(ex, st, a.groups[k], b.groups[k], path + k + '/')
    for k in sorted(set(a.fams) & set(b.fams)):
        fa, fb = a.fams[k], b.fams[k]
        if fa.kind == 'group':
            out.append((path + 'family/' + k, z3.And(
                fa.n == fb.n, A.forall_idx(
                    fa.n, lambda t: fa.at(t) == fb.at(t)))))
        else:
            from pyvc.verify import cells_equal
            e = cells_equal(ex, st, LArr(fa.n, fa.at.alen, fa.at.at, fa.at.k),
                            st, LArr(fb.n, fb.at.alen, fb.at.at, fb.at.k))
            out.append((path + 'family/' + k, z3.BoolVal(True) if e is None
                        else e))
    if a.token is not None or b.token is not None:
        out.append((path + 'content', z3.BoolVal(False) if (
            a.token is None or b.token is None) else a.token == b.token))
    return out


def union_update_unit(cx, fe, info):
    """update(write(u0), u1) == write(u1) whenever u1 differs from u0 only in
    what sample() modifies (cache, n_sample, n_reject)"""
    from .C09 import BQ
    for unit in (True, False):
        reg = new_registry(fe)
        h5.install(reg)
        U.install_member_api(reg, cx)
        G = dict(rng=None)
        install_member_io(reg, G)
        reg.inline.add(BQ + 'basic.UnitCube.write')
        reg.h5_havoc = h5_havoc
        ex = Executor(cx, fe, reg)
        cx.prefix = 'Union.update[unit={}]/'.format(unit)
        st = State()
        n0 = len(cx.obligations)
        try:
            member_axioms(st)
            self_ = make_union(ex, st, G, unit)
            g1 = h5.new_group(st)
            st.env = dict(self=self_, group=g1)
            outs = ex.run_function(fe.get(UQ + 'write'), st, write_loops(G))
            for o in outs:
                if o.status != 'return':
                    cx.oblige(o, 'write_does_not_raise', z3.BoolVal(False))
                    continue
                # the union is sampled from: exactly the modifies set of
                # Union.sample (proved in C13: points, n_sample, n_reject)
                rec = o.cell(self_)
                rec.fields['points'] = o.alloc(A.fresh_arr(o, 'Pt', 'cache2'),
                                               'cache2')
                rec.fields['n_sample'] = fresh('int', 'n_sample2')
                rec.fields['n_reject'] = fresh('int', 'n_reject2')
                o.status = 'normal'
                o.env = dict(self=self_, group=g1)
                for u in ex.run_function(fe.get(UQ + 'update'), o, None):
                    if u.status != 'return':
                        cx.oblige(u, 'update_does_not_raise', z3.BoolVal(
                            False))
                        continue
                    g2 = h5.new_group(u)
                    u.status = 'normal'
                    u.env = dict(self=self_, group=g2)
                    for w in ex.run_function(fe.get(UQ + 'write'), u,
                                             write_loops(G)):
                        if w.status != 'return':
                            continue
                        for (nm, f) in trees_equal(ex, w, g1, g2):
                            cx.oblige(w, 'update_equals_full_write/' + nm, f,
                                      kind='post')
        except OutsideSubset as e:
            del cx.obligations[n0:]
            cx.oblige(State(), 'in_subset', z3.BoolVal(False),
                      kind='in_subset', reason='OutsideSubset: {} (line '
                      '{})'.format(e, getattr(e.node, 'lineno', cx.line)))
        cx.prefix = ''
    fn_entry(fe, info, UQ + 'update')
