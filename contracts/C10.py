"""C10 - likelihood calls: exact count, one batch per step, budget and support.

Reuses the Sampler contracts (contracts/sampler_contracts.py). The clauses that
carry C10 are: sample_shell/post_len, add_samples/call_pre/evaluate_likelihood/
points_in_cube + post/one_batch_evaluated, run/loop0/step/N_one_batch_per_
iteration + N_guard_held, run/post/N_budget + N_return_value, and
evaluate_likelihood/post_n_like (C03 unit).
"""
from . import C01 as _base

OBLIGATION_FLOOR = 1500
Z3_TIMEOUT_MS = _base.Z3_TIMEOUT_MS
SUPPORT_UNITS = ['UnitCube', 'NautilusBound', 'NautilusBound.compute',
                 'evaluate_likelihood']
UNITS = ['sample_shell', 'add_samples', 'run[verbose=False,file=False]',
         'run[verbose=False,file=True]', 'run[verbose=True,file=False]',
         'run[verbose=True,file=True]'] + ['support:' + u
                                           for u in SUPPORT_UNITS]
BRANCH_COVERED_FUNCTIONS = tuple(_base.SQ + f for f in (
    'sample_shell', 'add_samples', 'run'))
DEAD_BRANCHES = _base.DEAD_BRANCHES
_branch_cov = _base._branch_cov
_branch_all = _base._branch_all


def build(cx, fe, tier, info, only=None):
    if only is not None and only.startswith('support:'):
        # "never evaluates a point outside the unit cube": the two bound
        # classes the Sampler instantiates return proposals inside the cube,
        # and NautilusBound.compute builds the outer union restricted to it
        # (units shared with C07)
        unit = only.split(':', 1)[1]
        if unit == 'evaluate_likelihood':
            # the counter grows by exactly the number of rows of the batch in
            # every evaluation mode (scalar / vectorised / dictionary / pool):
            # unit shared with C03
            from . import C03
            C03.build(cx, fe, tier, info, only=unit)
            return
        from . import C07
        C07.build(cx, fe, tier, info, only=unit)
        return
    _base.build(cx, fe, tier, info, only=only)
    info['assumptions'] = [a.replace('C01:', 'C10:')
                           for a in info.get('assumptions', [])]
    info['assumptions'].append(
        'C10: the user likelihood returns one value per point (vectorised '
        'mode); evaluate_likelihood contract used here is verified in C03')
    info['notes'] = ['timeout guard uses time(): modelled as a fresh real '
                     'per call; the guard itself is checked as executed']


def replay(r, tier, seed):
    from .common import run_runtime
    if 'rt' not in _cache:
        _cache['rt'] = run_runtime('check_c10.py', [3])
    return _cache['rt']


_cache = {}
