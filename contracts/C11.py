"""C11 - same seed, same result, however the likelihood is evaluated/observed.

Form: effect (frame) obligations on the real bodies.
  * every read-only accessor has an EMPTY modifies clause: no field of the
    sampler, no bound sampling state, no generator draw (frame check over all
    fields + ghost state);
  * write / write_shell_update read the sampler and mutate only the file;
  * every `if verbose:` block contains only print_status / print;
  * the only nondeterminism sources in the package are the shared generator,
    time() in the loop guard, and explicitly seeded estimators (syntactic
    obligations over the whole package AST);
  * NautilusPool.map returns the results of the ordered map primitive.
"""
import ast
import z3

from pyvc.core import (State, fresh, Opaque, Arr, Sym, Ref, ObjRec, uid, I, B,
                       OutsideSubset)
from pyvc import arrays as A
from pyvc.npmodel import MaybeNone
from pyvc.registry import FnContract
from pyvc.symexec import Executor, View, LoopSpec, Lib
from pyvc.verify import verify_function
from .common import new_registry, fn_entry
from . import sampler_model as M
from . import sampler_contracts as SC
from .sampler_model import SQ

OBLIGATION_FLOOR = 60
Z3_TIMEOUT_MS = 30000
ACCESSORS = ['n_eff', 'log_z', 'eta', 'f_live', 'log_v_live',
             'effective_sample_size', 'evidence',
             'asymptotic_sampling_efficiency', 'discard_exploration']
UNITS = ACCESSORS + ['write', 'write_shell_update', 'pool_map', 'pool_init',
                     'static', 'evaluate_likelihood']
BRANCH_COVERED_FUNCTIONS = ()
DEAD_BRANCHES = ()
_EX = {}


def _branch_cov():
    return _EX['ex'].branch_cov if 'ex' in _EX else []


def _branch_all():
    return _EX['ex'].branch_all if 'ex' in _EX else []


GHOSTS = ('sstate', 'rng_ver', 'clock')


def pure_contract(name, params=(), defaults=None):
    return FnContract(SQ + name, params=list(params), defaults=defaults or {},
                      mod_fields=[], mod_ghost=[])


def install_sinks(reg):
    """external objects whose operations do not touch the sampler"""
    reg.globals['h5py'] = Opaque('sink:h5py')
    reg.globals['Path'] = Opaque('sink:path')
    reg.globals['os'] = Opaque('sink:os')
    reg.globals['copyfile'] = Opaque('sink:copyfile')
    reg.globals['get_terminal_size'] = Opaque('sink:terminal')
    # the generator's state is read (never advanced) when a checkpoint is made
    reg.lib['rng.bit_generator'] = None

    def getattr_hook(ex, st, o, d, name, node):
        if isinstance(d, Opaque) and d.what == 'rng' and \
                name == 'bit_generator':
            return Opaque('sink:bitgen')
        if isinstance(d, Opaque) and d.what == 'dict':
            return Opaque('sink:dict')
        if isinstance(d, Sym) and d.k == 'Bound':
            if name == 'log_v':
                return Sym(M.LV(d.t, z3.Select(M.sstate(st), d.t)), 'real')
            if name in ('n_ell', 'n_net'):
                return fresh('int', name)
        return NotImplemented
    reg.getattr_hook = getattr_hook

    def subscript_hook(ex, st, base, d, sl, node):
        if isinstance(d, Opaque) and d.what == 'dict':
            return Opaque('sink:dictvalue')
        return NotImplemented
    reg.subscript_hook = subscript_hook

    def b_write(ex, st, b, args, kw, node):
        return None
    reg.sort_methods[('Bound', 'write')] = b_write
    reg.sort_methods[('Bound', 'update')] = b_write
    base_list = reg.lib['list']

    def b_list(ex, st, v, node):
        if isinstance(v, tuple):
            from pyvc.core import PyList
            return st.alloc(PyList(list(v)), 'list')
        raise OutsideSubset('list({!r})'.format(v), node)
    reg.list_hook = b_list
    reg.lib['tuple'] = lambda ex, st, a, k, n: Opaque('tuple')

    def iter_hook(ex, st, v, node):
        from pyvc.symexec import IterDom
        if isinstance(v, Opaque) and v.what.startswith('sink'):
            n = z3.Int(uid('n_items'))
            st.assume(n >= 0)
            return IterDom(n, lambda k: Opaque('sink:item'))
        return None
    reg.iter_hook = iter_hook


def build(cx, fe, tier, info, only=None):
    reg = new_registry(fe)
    M.install_bound_api(reg, cx)
    install_sinks(reg)
    M.install_sampler_hooks(reg)
    ex = Executor(cx, fe, reg)
    _EX['ex'] = ex
    # callee contracts (pure)
    reg.add_contract(SC.n_eff_contract())
    for nm in ('log_z', 'eta'):
        reg.add_contract(FnContract(
            SQ + nm, result=lambda ex_, st, V, nm=nm: MaybeNone(
                z3.Bool(uid(nm + '_none')), fresh('real', nm))))
    reg.add_contract(SC.f_live_contract())
    reg.add_contract(SC.print_status_contract())

    def env_plain(ex_, st):
        return dict(self=M.make_sampler(ex_, st))
    for name in ACCESSORS:
        if only not in (None, name):
            continue
        c = pure_contract(name)
        # a unit's own contract must not be used for its own body
        saved = reg.contracts.pop(SQ + name, None)

        def pre(V, name=name):
            out = M.InvAll(V)
            if name == 'log_v_live':
                # used by add_bound while exploring; after exploration with
                # discard_exploration on, its two arrays have different
                # lengths (observation recorded in DESIGN.md, not a C11 item)
                out.append(('exploring_or_not_discarding', z3.Not(z3.And(
                    V.bool('self._discard_exploration'),
                    V.bool('self.explored')))))
            return out
        c.pre = pre
        verify_function(ex, SQ + name, c, env_plain, ghost_frame=GHOSTS)
        if saved is not None:
            reg.contracts[SQ + name] = saved
        fn_entry(fe, info, SQ + name)
    # ---- write / write_shell_update: pure on the sampler
    if only in (None, 'write'):
        c = pure_contract('write', ['filepath', 'overwrite'],
                          dict(overwrite=False))
        c.loops = {0: LoopSpec(inv=None), 1: LoopSpec(inv=None),
                   2: LoopSpec(inv=None), 3: LoopSpec(inv=None)}
        c.raises = lambda Vo, Vn, exc: [('documented_errors', z3.BoolVal(
            exc in ('ValueError', 'RuntimeError')))]

        def env_w(ex_, st):
            self_ = M.make_sampler(ex_, st)
            for (nm, f) in M.InvAll(View(ex_, _tmp(st, self_))):
                st.assume(f)
            return dict(self=self_, filepath=Opaque('sink:pathlike'),
                        overwrite=fresh('bool', 'overwrite'))
        verify_function(ex, SQ + 'write', c, env_w, ghost_frame=GHOSTS)
        fn_entry(fe, info, SQ + 'write')
    if only in (None, 'write_shell_update'):
        c = pure_contract('write_shell_update', ['filepath', 'shell'])

        def env_u(ex_, st):
            self_ = M.make_sampler(ex_, st)
            V = View(ex_, _tmp(st, self_))
            for (nm, f) in M.InvAll(V):
                st.assume(f)
            sh = fresh('int', 'shell')
            nb = V('self.bounds').n
            st.assume(z3.And(sh.t >= -nb, sh.t < nb, nb >= 1))
            return dict(self=self_, filepath=Opaque('sink:pathlike'), shell=sh)
        verify_function(ex, SQ + 'write_shell_update', c, env_u,
                        ghost_frame=GHOSTS)
        fn_entry(fe, info, SQ + 'write_shell_update')
    if only in (None, 'pool_map'):
        pool_map_unit(cx, fe, info, reg, ex)
    if only in (None, 'pool_init'):
        pool_init_unit(cx, fe, info)
    if only in (None, 'static'):
        static_obligations(cx, fe, info)
    if only in (None, 'evaluate_likelihood'):
        # scalar / vectorised / pooled evaluation return the same values: the
        # functional contract of evaluate_likelihood (shared with C03) does
        # not mention `vectorized` or `pool`, and the caller's batch is
        # untouched
        from . import C03
        keep = _EX.get('ex')
        info3 = dict(functions=[])
        C03.build(cx, fe, tier, info3, only='evaluate_likelihood')
        info['functions'] = info.get('functions', []) + info3['functions']
        if keep is not None:
            _EX['ex'] = keep
    info['assumptions'] = [
        'C11: BLAS / scikit-learn are deterministic for equal inputs on one '
        'machine; the user functions are pure',
        'C11: multiprocessing.Pool.map and dask Client.gather(Client.map(..)) '
        'return results in input order (assumed contract of the dependency)',
        'C11: h5py / pathlib objects have no reference to the sampler '
        '(modelled as effect-free sinks)',
    ]
    info['bounded_functions'] = [
        'Sampler.print_status and Sampler.shell_bound_occupation (string '
        'formatting / 2-D counting loops outside the subset): runtime '
        'interleaving check only']


def _tmp(st, self_):
    st.env = dict(self=self_)
    return st


def pool_map_unit(cx, fe, info, reg, ex):
    """NautilusPool.map returns list(primitive ordered map)"""
    from pyvc.core import PyList
    q = 'nautilus.pool.NautilusPool.map'
    G = {}

    def env(ex_, st):
        self_ = st.alloc(ObjRec('NautilusPool', dict(pool=Opaque('rawpool'))),
                         'self')
        return dict(self=self_, func=Opaque('func'), iterable=Opaque('items'))

    def raw_map(ex_, st, args, kw, node):
        return Opaque('ORDERED_MAP(func,items)' if (
            isinstance(args[1], Opaque) and args[1].what == 'func' and
            isinstance(args[2], Opaque) and args[2].what == 'items')
            else 'other')
    reg.lib['rawpool.map'] = raw_map
    reg.lib['rawpool.gather'] = lambda ex_, st, a, k, n: a[1]
    reg.lib['type'] = lambda ex_, st, a, k, n: Opaque('typeobj')
    reg.lib['str'] = lambda ex_, st, a, k, n: Opaque('typestr')

    def contains_hook(ex_, st, item, coll, node):
        if isinstance(coll, Opaque) and coll.what == 'typestr':
            return z3.Bool('pool_is_dask_client')
        raise OutsideSubset('membership', node)
    reg.contains_hook = contains_hook
    reg.list_hook = lambda ex_, st, v, node: v

    def post(Vo, Vn, res):
        return [('returns_the_ordered_map', z3.BoolVal(
            isinstance(res, Opaque) and res.what == 'ORDERED_MAP(func,items)'))]
    c = FnContract(q, params=['func', 'iterable'], post=post)
    verify_function(ex, q, c, env)
    fn_entry(fe, info, q)


def pool_init_unit(cx, fe, info):
    """NautilusPool(pool, likelihood): an integer creates a NEW worker pool
    whose workers are initialised with exactly this likelihood; anything else
    is used as it is. No state is shared between two NautilusPool objects."""
    q = 'nautilus.pool.NautilusPool.__init__'
    for is_int in (True, False):
        reg = new_registry(fe)
        G = {}

        def Pool(ex_, st, args, kw, node, G=G):
            G['calls'] = G.get('calls', 0) + 1
            G['n'] = args[0] if args else None
            G['initializer'] = kw.get('initializer')
            G['initargs'] = kw.get('initargs')
            return Opaque('new_worker_pool')
        reg.lib['Pool'] = Pool
        reg.globals['Pool'] = Lib('Pool')
        reg.globals['initialize_worker'] = Opaque('initialize_worker')

        def isinstance_hook(ex_, st, v, ty, node, is_int=is_int):
            if isinstance(v, Opaque) and v.what == 'pool_argument':
                return is_int
            return NotImplemented
        reg.isinstance_hook = isinstance_hook
        ex = Executor(cx, fe, reg)

        def env(ex_, st, G=G):
            G.clear()
            self_ = st.alloc(ObjRec('NautilusPool', {}), 'self')
            G['like'] = Opaque('likelihood')
            G['arg'] = Opaque('pool_argument')
            return dict(self=self_, pool=G['arg'], likelihood=G['like'])

        def post(Vo, Vn, res, G=G, is_int=is_int):
            rec = Vn.st.cell(Vn.raw('self'))
            p = rec.fields.get('pool')
            if not is_int:
                return [('a_given_pool_is_used_as_it_is', z3.BoolVal(
                    p is G['arg'] and G.get('calls', 0) == 0))]
            ia = G.get('initargs')
            ia = ia if isinstance(ia, (tuple, list)) else ()
            return [('an_integer_creates_one_new_worker_pool', z3.BoolVal(
                isinstance(p, Opaque) and p.what == 'new_worker_pool' and
                G.get('calls', 0) == 1 and G.get('n') is G['arg'])),
                ('workers_are_initialised_with_this_likelihood', z3.BoolVal(
                    isinstance(G.get('initializer'), Opaque) and
                    G['initializer'].what == 'initialize_worker' and
                    len(ia) == 1 and ia[0] is G['like']))]
        c = FnContract(q, params=['pool', 'likelihood'],
                       defaults=dict(likelihood=None), post=post)
        verify_function(ex, q, c, env, frame_obj='none', check_frame=False,
                        tag='[integer={}]'.format(is_int))
    fn_entry(fe, info, q)
    # the module keeps no state besides the likelihood handed to a worker
    src = fe.module_src['nautilus.pool']
    tree = ast.parse(src)
    glob = []
    for n in tree.body:
        if isinstance(n, (ast.Assign, ast.AnnAssign, ast.AugAssign)):
            glob.append(ast.unparse(n)[:60])
    for fn in ast.walk(tree):
        if isinstance(fn, ast.FunctionDef):
            for n in ast.walk(fn):
                if isinstance(n, ast.Global) and fn.name != \
                        'initialize_worker':
                    glob.append('{}: global {}'.format(fn.name, n.names))
    cx.prefix = 'static/'
    cx.oblige(State(), 'pool/no_module_level_state', z3.BoolVal(not glob),
              kind='effect', detail=str(glob))
    cx.prefix = ''


ALLOWED_RANDOM = {
    # (module, function): what it is allowed to call
    'default_rng', 'SeedSequence', 'Generator'}


def static_obligations(cx, fe, info):
    """Syntactic obligations over the package AST (kind `effect`)."""
    st = State()
    cx.prefix = 'static/'
    for mod, src in fe.module_src.items():
        tree = ast.parse(src)
        bad_random = []
        bad_time = []
        unseeded = []
        for fn in ast.walk(tree):
            if not isinstance(fn, ast.FunctionDef):
                continue
            for n in ast.walk(fn):
                if isinstance(n, ast.Attribute) and isinstance(
                        n.value, ast.Attribute) and isinstance(
                        n.value.value, ast.Name) and n.value.value.id == 'np' \
                        and n.value.attr == 'random':
                    if n.attr not in ALLOWED_RANDOM:
                        bad_random.append('{}:{}'.format(fn.name, n.attr))
                if isinstance(n, ast.Call) and isinstance(n.func, ast.Name) \
                        and n.func.id == 'time':
                    # only inside the loop guard / start stamp of run()
                    if fn.name != 'run':
                        bad_time.append(fn.name)
                if isinstance(n, ast.Call) and isinstance(
                        n.func, ast.Attribute) and n.func.attr == 'default_rng' \
                        and not n.args and not n.keywords:
                    # unseeded generator only as the `rng is None` fallback
                    ok = False
                    for iff in ast.walk(fn):
                        if isinstance(iff, ast.If) and 'rng is None' in \
                                ast.unparse(iff.test) and any(
                                n in list(ast.walk(b)) for b in iff.body):
                            ok = True
                    if not ok:
                        unseeded.append(fn.name)
                if isinstance(n, ast.Call) and isinstance(n.func, ast.Name) \
                        and n.func.id in ('GaussianMixture', 'MLPRegressor'):
                    kws = {k.arg for k in n.keywords}
                    if 'random_state' not in kws and not (
                            n.func.id == 'MLPRegressor' and not n.keywords
                            and not n.args):
                        unseeded.append(fn.name + ':' + n.func.id)
        cx.line = None
        cx.oblige(st, '{}/no_global_numpy_random'.format(mod),
                  z3.BoolVal(not bad_random), kind='effect',
                  detail=str(bad_random))
        cx.oblige(st, '{}/wall_clock_only_in_run_guard'.format(mod),
                  z3.BoolVal(not bad_time), kind='effect', detail=str(bad_time))
        cx.oblige(st, '{}/estimators_and_generators_seeded'.format(mod),
                  z3.BoolVal(not unseeded), kind='effect', detail=str(unseeded))
    # run(): the timeout guard is the only use of time(), and every
    # `if verbose:` block contains only print calls
    src = fe.module_src['nautilus.sampler']
    tree = ast.parse(src)
    for fn in ast.walk(tree):
        if isinstance(fn, ast.FunctionDef) and fn.name in (
                'run', 'add_bound', 'add_samples'):
            ok = True
            for n in ast.walk(fn):
                if isinstance(n, ast.If) and ast.unparse(n.test) == 'verbose':
                    for s in n.body + n.orelse:
                        for c in ast.walk(s):
                            if isinstance(c, (ast.Assign, ast.AugAssign)):
                                ok = False
                            if isinstance(c, ast.Call):
                                f = ast.unparse(c.func)
                                if f not in ('print', 'self.print_status'):
                                    ok = False
            cx.oblige(st, 'sampler.{}/verbose_blocks_only_print'.format(
                fn.name), z3.BoolVal(ok), kind='effect')
        if isinstance(fn, ast.FunctionDef) and fn.name == 'run':
            uses = [ast.unparse(n) for n in ast.walk(fn) if isinstance(
                n, ast.Call) and ast.unparse(n.func) == 'time']
            guard = [n for n in ast.walk(fn) if isinstance(n, ast.While)]
            in_guard = sum('time()' in ast.unparse(g.test) for g in guard)
            cx.oblige(st, 'sampler.run/time_only_in_timeout_guard',
                      z3.BoolVal(len(uses) == 1 + in_guard and in_guard == 1),
                      kind='effect')
    # the generator is drawn from only where the algorithm needs it, and the
    # likelihood pool only maps the likelihood: neither a read-only accessor
    # nor the size of the likelihood pool can change the random stream
    DRAWS = {'__init__', 'posterior', 'sample_shell', 'add_bound', 'write',
             'write_shell_update'}
    touches, pool_slips = [], []
    for cls in ast.walk(tree):
        if not (isinstance(cls, ast.ClassDef) and cls.name == 'Sampler'):
            continue
        for fn in cls.body:
            if not isinstance(fn, ast.FunctionDef):
                continue
            for n in ast.walk(fn):
                if isinstance(n, ast.Attribute) and n.attr == 'rng' and \
                        ast.unparse(n.value) == 'self' and \
                        fn.name not in DRAWS:
                    touches.append(fn.name)
                if isinstance(n, ast.Attribute) and n.attr == 'pool_l' and \
                        fn.name not in ('__init__', 'evaluate_likelihood'):
                    pool_slips.append('{}: pool_l'.format(fn.name))
                if isinstance(n, ast.keyword) and n.arg == 'pool' and \
                        fn.name != '__init__' and \
                        ast.unparse(n.value) != 'self.pool_s':
                    pool_slips.append('{}: pool={}'.format(
                        fn.name, ast.unparse(n.value)))
            if fn.name in ('write', 'write_shell_update'):
                # the writers only read the generator state
                for n in ast.walk(fn):
                    if isinstance(n, ast.Attribute) and isinstance(
                            n.value, ast.Attribute) and n.value.attr == 'rng' \
                            and n.attr != 'bit_generator':
                        touches.append(fn.name + '.' + n.attr)
    cx.oblige(st, 'sampler/generator_used_only_by_the_sampling_steps',
              z3.BoolVal(not touches), kind='effect', detail=str(touches))
    cx.oblige(st, 'sampler/likelihood_pool_only_maps_the_likelihood',
              z3.BoolVal(not pool_slips), kind='effect',
              detail=str(pool_slips))
    # every bound constructor call inside the package passes the shared rng
    for mod, src in fe.module_src.items():
        tree = ast.parse(src)
        missing = []
        for n in ast.walk(tree):
            if isinstance(n, ast.Call) and isinstance(n.func, ast.Attribute) \
                    and n.func.attr in ('compute', 'read') and isinstance(
                    n.func.value, (ast.Name, ast.Call)):
                callee = ast.unparse(n.func.value)
                if callee in ('UnitCube', 'Ellipsoid', 'Union', 'NeuralBound',
                              'UnitCubeEllipsoidMixture', 'NautilusBound',
                              'bound_class', 'type(self.bounds[0])'):
                    kws = {k.arg for k in n.keywords}
                    # placeholder in UnitCubeEllipsoidMixture.compute: only its
                    # log_v (== 0) is read, its generator is never used
                    placeholder = (callee == 'UnitCube' and ast.unparse(n) ==
                                   'UnitCube.compute(points)')
                    if 'rng' not in kws and None not in kws and \
                            not placeholder:
                        missing.append('{}.{}@L{}'.format(
                            callee, n.func.attr, n.lineno))
        cx.oblige(st, '{}/bound_constructors_receive_the_shared_rng'.format(
            mod), z3.BoolVal(not missing), kind='effect', detail=str(missing))
    cx.prefix = ''


_cache = {}


def replay(r, tier, seed):
    from .common import run_runtime
    if 'rt' not in _cache:
        _cache['rt'] = run_runtime('check_c11.py', [])
    return _cache['rt']


def bounded(tier, seed):
    if tier != 'thorough':
        return []
    from .common import run_runtime
    rt = run_runtime('check_c11.py', [])
    viol = [dict(id='modes', **rt)] if rt.get('found') else []
    return [dict(name='C11/bounded/observation_modes',
                 what='bit-identical results for scalar vs vectorised, verbose, '
                      'checkpoint file, accessor calls between batches '
                      '(including print_status / shell_bound_occupation, which '
                      'have no proof), likelihood pools of size 2 and 3',
                 bound='one 2-D problem with one network, seed 11',
                 observed=rt.get('observed'), error=rt.get('error'),
                 violations=viol)]
