"""C12 - exploration ends once; then history is append-only; discard is a view.

Clauses (contracts/sampler_contracts.py): run/loop0/step/X_no_return_to_
exploration, X_bounds_frozen, X_append_only, X_exploration_snapshot_frozen;
run/post/X_explored_monotone; InvRun/X_shells_nonempty_after_exploration;
add_samples/post/X_append_only, explored_unchanged, bounds_unchanged;
add_bound/pre exploring (called only while exploring: call_pre obligations in
run); discard setter post (flag set, S1_shell_n_counts_view for every shell,
frame = {flag, four statistic arrays}); update_shell_info functional in its
inputs (2-safety unit `usi_deterministic`).
"""
from . import C01 as _base

OBLIGATION_FLOOR = 1500
Z3_TIMEOUT_MS = _base.Z3_TIMEOUT_MS
UNITS = ['update_shell_info', 'add_bound', 'add_samples', 'setter',
         'run[verbose=False,file=False]', 'run[verbose=False,file=True]',
         'run[verbose=True,file=False]', 'run[verbose=True,file=True]']
BRANCH_COVERED_FUNCTIONS = tuple(_base.SQ + f for f in (
    'update_shell_info', 'add_bound', 'add_samples',
    'discard_exploration.setter', 'run'))
DEAD_BRANCHES = _base.DEAD_BRANCHES
_branch_cov = _base._branch_cov
_branch_all = _base._branch_all


def build(cx, fe, tier, info, only=None):
    _base.build(cx, fe, tier, info, only=only)
    info['assumptions'] = [a.replace('C01:', 'C12:')
                           for a in info.get('assumptions', [])]


def replay(r, tier, seed):
    from .common import run_runtime
    if 'rt' not in _cache:
        _cache['rt'] = run_runtime('check_c12.py', [3])
    return _cache['rt']


_cache = {}
