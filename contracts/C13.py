"""C13 - a union of ellipsoids stays well-formed under any split/trim/sample
order. Functions under contract: Union.split, Union.trim, Union.sample,
Union.reset (inlined)."""
import z3

from pyvc.core import (State, Sym, Arr, Arr2, LArr, SList, PyList, ObjRec, Ref,
                       Opaque, fresh, fresh_fn, uid, I, B, OutsideSubset)
from pyvc import arrays as A
from pyvc.npmodel import MaybeNone
from pyvc.registry import FnContract
from pyvc.symexec import Executor, LoopSpec, View, Lib, PyCallable
from pyvc.verify import verify_function
from .common import new_registry, fn_entry
from . import union_model as U
from .union_model import S, UQ, Cm, LVm

OBLIGATION_FLOOR = 60
Z3_TIMEOUT_MS = 40000
UNITS = ['compute', 'trim', 'split', 'sample']
BRANCH_COVERED_FUNCTIONS = (UQ + 'trim', UQ + 'split', UQ + 'sample')
DEAD_BRANCHES = (
    ('reset', 'rng is not None', True),
)
_EX = {}


def _branch_cov():
    return _EX['ex'].branch_cov if 'ex' in _EX else []


def _branch_all():
    return _EX['ex'].branch_all if 'ex' in _EX else []


def members_equal(a, b):
    return z3.And(a.n == b.n, A.forall_idx(a.n, lambda i: a.at(i) == b.at(i)))


def larr_equal(a, b):
    i, j = A.qi('i'), A.qi('j')
    return z3.And(a.n == b.n, A.forall_idx(
        a.n, lambda t: a.alen(t) == b.alen(t)), z3.ForAll(
        [i, j], z3.Implies(z3.And(i >= 0, i < a.n, j >= 0, j < a.alen(i)),
                           a.at(i, j) == b.at(i, j))))


def unchanged(Vo, Vn):
    return [('refusal_leaves_members_unchanged', members_equal(
        S(Vn, 'bounds'), S(Vo, 'bounds'))),
        ('refusal_leaves_points_unchanged', larr_equal(
            S(Vn, 'points_bounds'), S(Vo, 'points_bounds'))),
        ('refusal_leaves_volumes_unchanged', A.arr_eq(
            S(Vn, 'log_v_all'), S(Vo, 'log_v_all')))]


def cache_reset(Vn):
    return [('cache_reset', z3.And(S(Vn, 'points').n == 0,
                                   Vn.int('self.n_sample') == 0,
                                   Vn.int('self.n_reject') == 0))]


def removed_at(new, old, idx, what):
    """list `new` is `old` without entry idx (others keep their order)"""
    i, j = A.qi('i'), A.qi('j')
    if isinstance(old, LArr):
        src = lambda t: z3.If(t < idx, t, t + 1)  # noqa: E731
        return z3.And(new.n == old.n - 1, A.forall_idx(
            new.n, lambda t: new.alen(t) == old.alen(src(t))), z3.ForAll(
            [i, j], z3.Implies(
                z3.And(i >= 0, i < new.n, j >= 0, j < new.alen(i)),
                new.at(i, j) == old.at(src(i), j))))
    return z3.And(new.n == old.n - 1, A.forall_idx(
        new.n, lambda t: new.at(t) == old.at(z3.If(t < idx, t, t + 1))))


def trim_contract():
    def pre(V):
        return U.InvU(V)

    def post(Vo, Vn, res):
        ok = B(res)
        out = []
        for (nm, f) in U.InvU(Vn):
            out.append(('inv_' + nm, f))
        for (nm, f) in unchanged(Vo, Vn):
            out.append((nm, z3.Implies(z3.Not(ok), f)))
        for (nm, f) in cache_reset(Vn):
            out.append((nm, z3.Implies(ok, f)))
        bo, bn = S(Vo, 'bounds'), S(Vn, 'bounds')
        k = z3.Int(uid('dropped'))
        body = z3.And(
            k >= 0, k < bo.n, removed_at(bn, bo, k, 'bounds'),
            removed_at(S(Vn, 'points_bounds'), S(Vo, 'points_bounds'), k,
                       'points'))
        if Vn.has('index'):
            # verification side: the code's own index is the witness
            body = z3.substitute(body, (k, I(Vn.raw('index'))))
        else:
            body = z3.Exists([k], body)
        out.append(('success_drops_exactly_one_record', z3.Implies(ok, body)))
        out.append(('single_member_is_never_dropped', z3.Implies(
            bo.n == 1, z3.Not(ok))))
        return out
    return FnContract(UQ + 'trim', params=['threshold'],
                      defaults=dict(threshold=1000.0), pre=pre, post=post,
                      mod_fields=['points_bounds', 'bounds', 'log_v_all',
                                  'block', 'points', 'n_sample', 'n_reject'])


def build(cx, fe, tier, info, only=None):
    reg = new_registry(fe)
    U.install_member_api(reg, cx)
    reg.inline.add(UQ + 'reset')
    ex = Executor(cx, fe, reg)
    _EX['ex'] = ex
    G = {}

    def env_union(ex_, st):
        self_ = U.make_union(ex_, st, G)
        G['n_dim'] = I(st.getfield(self_, 'n_dim'))
        return self_

    if only in (None, 'compute'):
        from .C13_compute import compute_unit
        compute_unit(cx, fe, info)
    if only in (None, 'trim'):
        c = trim_contract()

        def env(ex_, st):
            return dict(self=env_union(ex_, st),
                        threshold=fresh('real', 'threshold'))
        verify_function(ex, UQ + 'trim', c, env)
        fn_entry(fe, info, UQ + 'trim')
    if only in (None, 'split'):
        from .C13_split import split_unit
        split_unit(cx, fe, info, reg, ex, G, env_union)
    if only in (None, 'sample'):
        from .C13_split import sample_unit
        sample_unit(cx, fe, info, reg, ex, G, env_union)
    info['inlined'] = sorted(reg.inlined)
    info['assumptions'] = [
        'C13: GaussianMixture / multivariate_normal are havoc: the '
        'responsibility matrix p is an arbitrary real matrix (the proof holds '
        'for every clustering)',
        'C13: ellipsoids_overlap returns an arbitrary boolean',
        'C13: member.compute(points) succeeds iff it gets more rows than '
        'dimensions (Ellipsoid.compute; C07)',
    ]


_cache = {}


def replay(r, tier, seed):
    """counter-models of split/trim obligations are operation words: the
    runtime leg enumerates words over {split, split(no overlap), trim, sample}
    on three point sets against the real Union"""
    from .common import run_runtime
    if 'rt' not in _cache:
        _cache['rt'] = run_runtime('check_c13.py', [2])
    return _cache['rt']


def bounded(tier, seed):
    from .common import run_runtime
    if tier != 'thorough':
        # floating point is outside the proof (reals): every quick run at
        # least exercises unions whose volumes are far outside the range of
        # exp() - no operation may raise there either
        rt = run_runtime('check_c13.py', [3, 'scale'], timeout=600)
        viol = [dict(id='extreme_volumes', **rt)] if rt.get('found') else []
        return [dict(name='C13/bounded/extreme_volumes',
                     what='operation words up to length 3 over {split, trim, '
                          'sample} on unions at scale 1e-110 and 1e+110 (log '
                          'volumes beyond the range of exp): no raise, '
                          'records consistent',
                     bound='2 point sets, length <= 3',
                     observed=rt.get('observed'), error=rt.get('error'),
                     violations=viol)]
    rt = run_runtime('check_c13.py', [3], timeout=1500)
    viol = [dict(id='operation_words', **rt)] if rt.get('found') else []
    return [dict(name='C13/bounded/operation_words',
                 what='all operation words up to length 3 (4 for the '
                      'split/trim alphabet) on three point sets; records '
                      'consistent, split clusters >= n_points_min, points '
                      'preserved, refusals leave records unchanged, no raise',
                 bound='length <= 3/4, 3 point sets',
                 observed=rt.get('observed'), error=rt.get('error'),
                 violations=viol)]
