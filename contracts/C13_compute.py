"""Union.compute establishes the record invariant (C13) that split / trim /
sample / contains / log_v assume: one consistent record, an empty proposal
cache with zero counters, the unit-cube restriction exactly when asked for,
and the one shared generator."""
import ast
import z3

from pyvc.core import (State, Sym, Arr, LArr, SList, PyList, ObjRec, Ref,
                       Opaque, ClassVal, fresh, fresh_fn, uid, I, B,
                       OutsideSubset)
from pyvc import arrays as A
from pyvc.npmodel import MaybeNone
from pyvc.registry import FnContract
from pyvc.symexec import Executor, View, PyCallable
from pyvc.verify import verify_function
from .common import new_registry, fn_entry
from . import union_model as U
from .union_model import UQ


def install_construction(reg, G):
    """model of the pieces Union.compute is built from"""
    prev_get = reg.getattr_hook

    def getattr_hook(ex, st, o, d, name, node):
        if isinstance(d, U.MemberClass) and name == 'compute':
            return PyCallable(lambda ex_, st_, a, k, n, cls=d:
                              U.member_compute(ex_, st_, cls, a, k, n, G))
        if isinstance(d, Arr) and d.k == 'Pt' and name == 'shape':
            return (Sym(d.n, 'int'), Sym(G['n_dim'], 'int'))
        if isinstance(d, ClassVal) and d.name == 'UnitCube' and \
                name == 'compute':
            def cube_compute(ex_, st_, a, k, n):
                # UnitCube.compute(n_dim, rng=rng): the cube of that dimension
                # holding the generator it was given
                return st_.alloc(ObjRec('UnitCube', dict(
                    n_dim=a[0], rng=k.get('rng'))), 'cube')
            return PyCallable(cube_compute)
        if prev_get is not None:
            return prev_get(ex, st, o, d, name, node)
        return NotImplemented
    reg.getattr_hook = getattr_hook
    reg.globals['UnitCube'] = ClassVal('UnitCube')
    prev_set = reg.setattr_hook

    def setattr_hook(ex, st, o, attr, v, node):
        if isinstance(v, Ref) and isinstance(st.cell(v), PyList):
            items = [ex.deref(st, x) for x in st.cell(v).items]
            if attr == 'bounds' and items and all(
                    isinstance(x, Sym) and x.k == 'Member' for x in items):
                ts = [x.t for x in items]

                def at(i, ts=ts):
                    r = ts[-1]
                    for j in range(len(ts) - 2, -1, -1):
                        r = z3.If(i == j, ts[j], r)
                    return r
                st.setfield(o, attr, st.alloc(SList(len(ts), at, 'Member'),
                                              'members'))
                return True
            if attr == 'points_bounds' and items and all(
                    isinstance(x, Arr) and x.k == 'Pt' for x in items):
                def alen(i, items=items):
                    r = items[-1].n
                    for j in range(len(items) - 2, -1, -1):
                        r = z3.If(i == j, items[j].n, r)
                    return r

                def at2(i, jj, items=items):
                    r = items[-1].at(jj)
                    for j in range(len(items) - 2, -1, -1):
                        r = z3.If(i == j, items[j].at(jj), r)
                    return r
                st.setfield(o, attr, st.alloc(LArr(len(items), alen, at2,
                                                   'Pt'), 'pb'))
                return True
        if prev_set is not None:
            return prev_set(ex, st, o, attr, v, node)
        return False
    reg.setattr_hook = setattr_hook

    def atleast_1d(ex, st, args, kw, node):
        v = args[0]
        if isinstance(v, (Sym, bool)):
            t = B(v) if not isinstance(v, bool) else z3.BoolVal(v)
            return st.alloc(Arr(z3.IntVal(1), lambda i: t, 'bool'), 'flag')
        raise OutsideSubset('np.atleast_1d form', node)
    reg.lib['np.atleast_1d'] = atleast_1d
    reg.lib['np.random.default_rng'] = lambda e, s, a, k, n: Opaque(
        'rng_unseeded')


def compute_unit(cx, fe, info):
    reg = new_registry(fe)
    U.install_member_api(reg, cx)
    G = {}
    install_construction(reg, G)
    ex = Executor(cx, fe, reg)
    for npm_given in (False, True):
        _compute_variant(cx, fe, ex, G, npm_given)
    fn_entry(fe, info, UQ + 'compute')


def _compute_variant(cx, fe, ex, G, npm_given):
    def env(ex_, st):
        nd = z3.Int(uid('n_dim'))
        st.assume(nd >= 1)
        G['n_dim'] = nd
        pts = A.fresh_arr(st, 'Pt', 'construction')
        # precondition of the member class: more points than dimensions
        st.assume(pts.n > nd)
        like = fresh('Member', 'class_witness')
        npm = fresh('int', 'n_points_min') if npm_given else None
        enl = fresh('real', 'enlarge_per_dim')
        st.assume(enl.t >= 1)
        unit = fresh('bool', 'unit')
        rng = Opaque('rng')
        G.update(points=pts, unit=unit.t, rng=rng, like=like.t, npm=npm,
                 enl=enl.t)
        return dict(cls=ClassVal('Union'), points=st.alloc(pts, 'pts'),
                    enlarge_per_dim=enl, n_points_min=npm, unit=unit,
                    bound_class=U.MemberClass(like.t), rng=rng)

    def post(Vo, Vn, res):
        st = Vn.st
        rec = st.cell(res)
        saved = st.env
        st.env = dict(self=res)
        try:
            V = View(Vn.ex, st)
            out = [('establishes_' + nm, f) for (nm, f) in U.InvU(V)]
            pb, b = U.S(V, 'points_bounds'), U.S(V, 'bounds')
            pts = G['points']
            cube = rec.fields.get('cube', 'missing')
            out.append(('one_member_holding_all_construction_points', z3.And(
                b.n == 1, pb.n == 1, pb.alen(0) == pts.n, A.forall_idx(
                    pts.n, lambda j: pb.at(0, j) == pts.at(j)))))
            out.append(('member_is_of_the_requested_class',
                        U.is_ell(b.at(0)) == U.is_ell(G['like'])))
            out.append(('no_proposals_no_counters', z3.And(
                U.S(V, 'points').n == 0, V.int('self.n_sample') == 0,
                V.int('self.n_reject') == 0)))
            out.append(('restricted_to_the_unit_cube_iff_requested',
                        z3.BoolVal(cube != 'missing') if cube == 'missing'
                        else (G['unit'] == z3.BoolVal(cube is not None))))
            out.append(('generator_is_the_given_one', z3.BoolVal(
                rec.fields.get('rng') is G['rng'] and (
                    cube in (None, 'missing') or st.cell(cube).fields.get(
                        'rng') is G['rng']))))
            out.append(('configuration_stored', z3.And(
                V.int('self.n_dim') == G['n_dim'],
                U.S(V, 'enlarge_per_dim').t == G['enl']
                if isinstance(U.S(V, 'enlarge_per_dim'), Sym) else
                z3.BoolVal(True))))
        finally:
            st.env = saved
        return out

    def raises(Vo, Vn, exc):
        npm = G['npm']
        pts = G['points']
        return [('only_documented_value_errors', z3.And(
            z3.BoolVal(exc == 'ValueError' and npm is not None),
            (I(npm) < G['n_dim'] + 1) if npm is not None else
            z3.BoolVal(False)))]
    c = FnContract(UQ + 'compute',
                   params=['points', 'enlarge_per_dim', 'n_points_min', 'unit',
                           'bound_class', 'rng'],
                   defaults=dict(enlarge_per_dim=1.1, n_points_min=None,
                                 unit=True, rng=None), post=post,
                   raises=raises, mod_ghost=['rng'])
    verify_function(ex, UQ + 'compute', c, env, frame_obj='none',
                    check_frame=False,
                    tag='[n_points_min={}]'.format('given' if npm_given
                                                   else 'default'))
