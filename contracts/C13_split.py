"""C13: Union.split and Union.sample units."""
import ast
import z3

from pyvc.core import (State, Sym, Arr, Arr2, LArr, SList, PyList, ObjRec, Ref,
                       Opaque, fresh, fresh_fn, uid, I, B, OutsideSubset,
                       Raised, kind_of)
from pyvc import arrays as A
from pyvc.npmodel import MaybeNone
from pyvc.registry import FnContract
from pyvc.symexec import Executor, LoopSpec, View, Lib, PyCallable
from pyvc.verify import verify_function
from .common import fn_entry
from . import union_model as U
from .union_model import S, UQ, Cm, LVm


def install_split_theory(reg, G):
    L = reg.lib
    reg.globals['GaussianMixture'] = Lib('GaussianMixture')
    reg.globals['multivariate_normal'] = Lib('multivariate_normal')
    reg.globals['ellipsoids_overlap'] = Lib('ellipsoids_overlap')
    reg.globals['Ellipsoid'] = reg.global_name('Ellipsoid')
    def gmm(ex, st, a, k, n):
        return Opaque('gmm')
    gmm.any_kwargs = True       # the clustering is havoc whatever its settings
    L['GaussianMixture'] = gmm
    def gmm_fit(ex, st, a, k, n):
        return Opaque('gmmfit')
    gmm_fit.any_kwargs = True
    L['gmm.fit'] = gmm_fit

    def logpdf(ex, st, args, kw, node):
        p = ex.deref(st, args[0])
        return st.alloc(A.fresh_arr(st, 'real', 'logpdf', n=p.n), 'logpdf')
    logpdf.any_kwargs = True    # arbitrary real scores whatever mean / cov
    L['multivariate_normal.logpdf'] = logpdf

    def overlap(ex, st, args, kw, node):
        return fresh('bool', 'overlap')
    L['ellipsoids_overlap'] = overlap
    base_log = L['np.log']

    def np_log(ex, st, args, kw, node):
        v = ex.deref(st, args[0])
        if isinstance(v, Opaque):
            return fresh('real', 'logw')
        return base_log(ex, st, args, kw, node)
    L['np.log'] = np_log
    prev_getattr = reg.getattr_hook

    def getattr_hook(ex, st, o, d, name, node):
        if isinstance(d, Opaque) and d.what in ('gmmfit',):
            return Opaque('gmmattr')
        if isinstance(d, U.MemberClass) and name == 'compute':
            return PyCallable(lambda ex_, st_, a, k, n, cls=d: U.member_compute(
                ex_, st_, cls, a, k, n, G))
        if isinstance(d, Arr2) and name == 'T':
            return st.alloc(Arr2(d.nc, d.nr, lambda r, c: d.at(c, r), d.k), 'T')
        if prev_getattr is not None:
            return prev_getattr(ex, st, o, d, name, node)
        return NotImplemented
    reg.getattr_hook = getattr_hook

    def subscript_hook(ex, st, base, d, sl, node):
        if isinstance(d, Opaque) and d.what == 'gmmattr':
            return Opaque('gmmelem')
        if isinstance(d, Arr2) and isinstance(sl, ast.Tuple) and \
                len(sl.elts) == 2:
            # p[idx, label]: rows idx (int array), one column
            r_ = ex.deref(st, ex.eval(sl.elts[0], st))
            if isinstance(r_, Arr) and r_.k == 'int':
                c_ = ex.eval(sl.elts[1], st)
                cc = A.norm_index(d.nc, c_)
                ex.need(st)('col_index', z3.And(cc >= 0, cc < d.nc))
                ex.need(st)('row_index', A.forall_idx(
                    r_.n, lambda j: z3.And(r_.at(j) >= 0, r_.at(j) < d.nr)))
                return st.alloc(Arr(r_.n, lambda j: d.at(r_.at(j), cc), d.k),
                                'col')
        return NotImplemented
    reg.subscript_hook = subscript_hook

    def vstack_hook(ex, st, v, node):
        if isinstance(v, PyList) and v.items:
            arrs = [ex.deref(st, x) for x in v.items]
            if all(isinstance(a, Arr) and a.k == 'real' for a in arrs):
                for a in arrs[1:]:
                    ex.need(st)('vstack_lengths', a.n == arrs[0].n)

                def fn(r, c, arrs=arrs):
                    t = arrs[-1].at(c)
                    for i in range(len(arrs) - 2, -1, -1):
                        t = z3.If(r == i, arrs[i].at(c), t)
                    return t
                return st.alloc(Arr2(len(arrs), arrs[0].n, fn, 'real'), 'vs')
        return NotImplemented
    reg.vstack_hook = vstack_hook

    def argmax_axis(ex, st, v, kw, node, is_max):
        if not (isinstance(v, Arr2) and is_max):
            raise OutsideSubset('argmax axis form', node)
        lab = A.fresh_arr(st, 'int', 'labels', n=v.nr)
        c = A.qi('c')
        st.assume(A.forall_idx(v.nr, lambda r: z3.And(
            lab.at(r) >= 0, lab.at(r) < v.nc)))
        return st.alloc(lab, 'labels')
    reg.argmax_axis_hook = argmax_axis

    def bincount(ex, st, args, kw, node):
        lab = ex.deref(st, args[0])
        ml = kw.get('minlength')
        # model for labels in {0, 1} (obligation), as produced by an argmax
        # over two columns
        ex.need(st)('bincount_labels_binary', A.forall_idx(
            lab.n, lambda i: z3.Or(lab.at(i) == 0, lab.at(i) == 1)))
        m0 = Arr(lab.n, lambda i: lab.at(i) == 0, 'bool')
        m1 = Arr(lab.n, lambda i: lab.at(i) == 1, 'bool')
        c0, c1 = A.count(st, m0), A.count(st, m1)
        st.assume(c0 + c1 == lab.n)        # the two classes partition the rows
        if ml is None:
            # numpy: length is max(labels) + 1 (0 for an empty input)
            ln = z3.If(lab.n == 0, 0, z3.If(c1 > 0, 2, 1))
        else:
            mlt = I(ml)
            ln = z3.If(z3.And(c1 > 0, mlt < 2), 2, z3.If(
                z3.And(c1 == 0, lab.n > 0, mlt < 1), 1, mlt))
        return st.alloc(Arr(z3.simplify(ln), lambda v: z3.If(
            v == 0, c0, z3.If(v == 1, c1, 0)), 'int'), 'bincount')
    reg.bincount_hook = bincount


def binary_counts(st, lab):
    m0 = Arr(lab.n, lambda i: lab.at(i) == 0, 'bool')
    m1 = Arr(lab.n, lambda i: lab.at(i) == 1, 'bool')
    return A.count(st, m0), A.count(st, m1)


def split_contract(G):
    from .C13 import unchanged, cache_reset, removed_at

    def pre(V):
        return U.InvU(V)

    def result(ex, st, V):
        return fresh('bool', 'split_ok')

    def post(Vo, Vn, res):
        ok = B(res)
        out = []
        for (nm, f) in U.InvU(Vn):
            out.append(('inv_' + nm, f))
        for (nm, f) in unchanged(Vo, Vn):
            out.append((nm, z3.Implies(z3.Not(ok), f)))
        for (nm, f) in cache_reset(Vn):
            out.append((nm, z3.Implies(ok, f)))
        bo, bn = S(Vo, 'bounds'), S(Vn, 'bounds')
        po, pn = S(Vo, 'points_bounds'), S(Vn, 'points_bounds')
        npm = Vo.int('self.n_points_min')
        n1 = bn.n
        out.append(('success_replaces_one_record_by_two', z3.Implies(
            ok, z3.And(bn.n == bo.n + 1, pn.n == po.n + 1))))
        out.append(('post_min_points', z3.Implies(ok, z3.And(
            pn.alen(n1 - 2) >= npm, pn.alen(n1 - 1) >= npm))))
        k = z3.Int(uid('split_index'))
        body = z3.And(
            k >= 0, k < bo.n,
            pn.alen(n1 - 2) + pn.alen(n1 - 1) == po.alen(k),
            A.forall_idx(bo.n - 1, lambda t: z3.And(
                bn.at(t) == bo.at(z3.If(t < k, t, t + 1)),
                pn.alen(t) == po.alen(z3.If(t < k, t, t + 1)))),
            LVm(bo.at(k)) >= G['lse2'](LVm(bn.at(n1 - 2)),
                                      LVm(bn.at(n1 - 1))))
        out.append(('post_partition_and_volume', z3.Implies(
            ok, z3.Exists([k], body))))
        return out

    return FnContract(
        UQ + 'split', params=['allow_overlap'],
        defaults=dict(allow_overlap=True), pre=pre, post=post, result=result,
        raises=lambda Vo, Vn, exc: [
            ('only_documented_value_error', z3.And(
                z3.BoolVal(exc == 'ValueError'),
                z3.Not(B(Vo.raw('allow_overlap'))),
                z3.Not(U.is_ell(S(Vo, 'bounds').at(0)))))],
        mod_fields=['points_bounds', 'bounds', 'log_v_all', 'block', 'points',
                    'n_sample', 'n_reject'], mod_ghost=['rng'])


def split_unit(cx, fe, info, reg, ex, G, env_union):
    install_split_theory(reg, G)
    # logsumexp of a two-element list as a binary function symbol, shared by
    # code (library model) and contract
    lse2 = z3.Function('lse2', z3.RealSort(), z3.RealSort(), z3.RealSort())
    G['lse2'] = lse2
    base_lse = reg.lib['logsumexp']

    def lse(ex_, st, args, kw, node):
        v = ex_.deref(st, args[0])
        if isinstance(v, PyList) and len(v.items) == 2:
            from pyvc.arrays import zv
            return Sym(lse2(zv(v.items[0], 'real'), zv(v.items[1], 'real')),
                       'real')
        return base_lse(ex_, st, args, kw, node)
    reg.lib['logsumexp'] = lse
    c = split_contract(G)
    reg.add_contract(c)

    def env(ex_, st):
        return dict(self=env_union(ex_, st),
                    allow_overlap=fresh('bool', 'allow_overlap'))
    verify_function(ex, UQ + 'split', c, env)
    fn_entry(fe, info, UQ + 'split')


def sample_unit(cx, fe, info, reg, ex, G, env_union):
    def pre(V):
        return U.InvU(V) + [('n_points_nonneg', V.int('n_points') >= 0)]

    def post(Vo, Vn, res):
        r = Vn.ex.deref(Vn.st, res)
        out = [('post_len', r.n == Vo.int('n_points'))]
        for (nm, f) in U.InvU(Vn):
            out.append(('inv_' + nm, f))
        for (nm, f) in __import__('contracts.C13', fromlist=['x']).unchanged(
                Vo, Vn):
            out.append((nm.replace('refusal', 'sampling'), f))
        return out

    def inv0(V):
        return [('counters', z3.And(V.int('self.n_sample') >= 0,
                                    V.int('self.n_reject') >= 0,
                                    V.int('self.n_reject') <=
                                    V.int('self.n_sample')))]
    c = FnContract(UQ + 'sample', params=['n_points'],
                   defaults=dict(n_points=100), pre=pre, post=post,
                   mod_fields=['points', 'n_sample', 'n_reject'],
                   mod_ghost=['rng'], loops={0: LoopSpec(inv=inv0)})
    install_sample_theory(reg)

    def env(ex_, st):
        return dict(self=env_union(ex_, st), n_points=fresh('int', 'n_points'))
    verify_function(ex, UQ + 'sample', c, env)
    fn_entry(fe, info, UQ + 'sample')


def install_sample_theory(reg):
    def cube_contains(ex, st, args, kw, node):
        p = ex.deref(st, args[1])
        return st.alloc(Arr(p.n, lambda j: U.incube(p.at(j)), 'bool'), 'inc')
    reg.lib['cube.contains'] = cube_contains

    def sum_axis(ex, st, v, kw, node):
        # np.sum([member.contains(points) for member in members], axis=0):
        # multiplicity of every row
        if isinstance(v, LArr) and v.k == 'bool':
            ln = z3.Int(uid('rows'))
            i = A.qi('i')
            st.assume(z3.ForAll([i], z3.Implies(
                z3.And(i >= 0, i < v.n), v.alen(i) == ln)))
            mult = A.fresh_arr(st, 'int', 'multiplicity', n=v.alen(0))
            j = A.qi('j')
            st.assume(A.forall_idx(mult.n, lambda t: mult.at(t) >= 0))
            st.assume(z3.ForAll([i, j], z3.Implies(
                z3.And(i >= 0, i < v.n, j >= 0, j < mult.n, v.at(i, j)),
                mult.at(j) >= 1)))
            return st.alloc(mult, 'mult')
        raise OutsideSubset('np.sum axis form', node)
    reg.sum_axis_hook = sum_axis
