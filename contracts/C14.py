"""C14 - equal-weight posterior is an unbiased, order-preserving resampling.

Unit under contract: the resampling block of Sampler.posterior - every
statement from `if equal_weight:` to the end of the function, taken mechanically
from the real AST on every run - executed on arbitrary weighted arrays
(points, log_w, log_l, blobs of one common length >= 1). What the extraction
drops: the first part of posterior() that builds those arrays from the stored
samples (it is the subject of C02/C03); its result is only assumed here to be
four arrays of equal length.

The expectation claim (E[count] = r) is the one-line consequence of the proved
refinement count = floor(r) + [u < r - floor(r)] with u uniform on [0, 1); it
is stated, not machine-checked.
"""
import ast
import z3

from pyvc.core import (fresh, Opaque, Arr, Sym, Ref, ObjRec, uid, I, B)
from pyvc import arrays as A
from pyvc.arrays import zv
from pyvc.npmodel import MaybeNone, f_exp, f_floor
from pyvc.symexec import Executor, View
from pyvc.verify import verify_block
from pyvc.lib import array_fn, repeat_info, lse_term
from .common import new_registry, fn_entry
from . import sampler_model as M
from . import posterior as P
from .sampler_model import SQ

OBLIGATION_FLOOR = 40
Z3_TIMEOUT_MS = 40000
UNITS = ['resample[as_dict={}]'.format(d) for d in (True, False)]
BRANCH_COVERED_FUNCTIONS = ()
DEAD_BRANCHES = ()
_EX = {}


def _branch_cov():
    return _EX['ex'].branch_cov if 'ex' in _EX else []


def _branch_all():
    return _EX['ex'].branch_all if 'ex' in _EX else []


def select_block(fnode):
    """statements of posterior() from `if equal_weight:` to the end"""
    body = fnode.body
    for i, n in enumerate(body):
        if isinstance(n, ast.If) and ast.unparse(n.test) == 'equal_weight':
            return body[i:]
    return []


def build(cx, fe, tier, info, only=None):
    reg = new_registry(fe)
    M.install_bound_api(reg, cx)
    P.install_user_function_theory(reg)
    ex = Executor(cx, fe, reg)
    _EX['ex'] = ex
    for asd in (True, False):
        unit = 'resample[as_dict={}]'.format(asd)
        if only not in (None, unit):
            continue
        G = {}

        def env(ex_, st, asd=asd, G=G):
            P.exp_axioms(st)
            self_ = M.make_sampler(ex_, st)
            n = z3.Int(uid('n_weighted'))
            st.assume(n >= 1)
            pts = A.fresh_arr(st, 'Pt', 'w_points', n=n)
            lw = A.fresh_arr(st, 'real', 'w_log_w', n=n)
            ll = A.fresh_arr(st, 'real', 'w_log_l', n=n)
            bl = A.fresh_arr(st, 'Blob', 'w_blobs', n=n)
            boost = fresh('real', 'boost')
            st.assume(boost.t > 0)
            G.update(points=pts, log_w=lw, log_l=ll, blobs=bl, boost=boost.t,
                     n=n, self=self_)
            rb = fresh('bool', 'return_blobs')
            G['rb'] = rb.t
            return dict(self=self_, points=st.alloc(pts, 'p'),
                        log_w=st.alloc(lw, 'lw'), log_l=st.alloc(ll, 'll'),
                        blobs=st.alloc(bl, 'bl'), equal_weight=True,
                        equal_weight_boost=boost, return_blobs=rb,
                        return_as_dict=asd)

        def post(old, o, G=G):
            ex_ = ex
            V = View(ex_, o)
            res = o.retval
            out = []
            if not isinstance(res, tuple):
                return [('result_is_tuple', z3.BoolVal(False))]
            op, ow, ol = (ex_.deref(o, res[0]), ex_.deref(o, res[1]),
                          ex_.deref(o, res[2]))
            reps = V('repeats')
            n, boost = G['n'], G['boost']
            lw = G['log_w']
            info_ = repeat_info(o, reps)
            mx = array_fn(o, 'amax', lw, 'real')
            r_of = lambda j: f_exp(lw.at(j) - mx) * boost  # noqa: E731
            out.append(('counts_floor_or_floor_plus_one', z3.And(
                reps.n == n, A.forall_idx(n, lambda j: z3.And(
                    z3.ToReal(reps.at(j)) >= f_floor(r_of(j)),
                    z3.ToReal(reps.at(j)) <= f_floor(r_of(j)) + 1)))))
            out.append(('no_repeat_if_boost_at_most_one', z3.Implies(
                boost <= 1, A.forall_idx(n, lambda j: reps.at(j) <= 1))))
            N = info_.tot
            out.append(('order_and_alignment', z3.And(
                op.n == N, ol.n == N, ow.n == N, A.forall_idx(
                    N, lambda r: z3.And(
                        op.at(r) == P.T(G['points'].at(info_.src(r))),
                        ol.at(r) == G['log_l'].at(info_.src(r)))))))
            j, k = A.qi('j'), A.qi('k')
            out.append(('order_preserved', z3.ForAll([j, k], z3.Implies(
                z3.And(j >= 0, j <= k, k < N),
                info_.src(j) <= info_.src(k)))))
            zeros = Arr(N, lambda t: z3.RealVal(0), 'real')
            out.append(('weights_equal_and_normalised', A.forall_idx(
                N, lambda r: ow.at(r) == 0 - lse_term(o, zeros))))
            out.append(('result_arity', z3.BoolVal(len(res) == 4) == G['rb']))
            if len(res) == 4:
                ob = ex_.deref(o, res[3])
                out.append(('blobs_follow_their_rows', z3.And(
                    ob.n == N, A.forall_idx(N, lambda r: ob.at(r) == G[
                        'blobs'].at(info_.src(r))))))
            # frame: the weighted posterior (stored samples, statistics) is
            # untouched; only the random generator advances
            from pyvc.verify import values_equal
            ro = old.cell(old.env['self'])
            rn = o.cell(old.env['self'])
            for fld in sorted(ro.fields):
                e = values_equal(ex_, old, ro.fields[fld], o, rn.fields[fld])
                if e is not None:
                    out.append(('frame_' + fld, e))
            return out

        def raises(old, o, exc):
            return [('only_the_documented_dictionary_error', z3.And(
                z3.BoolVal(exc == 'ValueError'), P.PRIOR_CALLABLE,
                View(ex, old).bool('self.pass_dict')))]
        verify_block(ex, SQ + 'posterior', select_block, env, post,
                     tag='[resample,as_dict={}]'.format(asd), raises=raises)
        fn_entry(fe, info, SQ + 'posterior', status='block: `if equal_weight:`'
                 ' to end of function')
    info['assumptions'] = [
        'C14: the block is entered with four arrays of one common length >= 1 '
        '(built by the first part of posterior(): C02/C03)',
        'C14: exp is positive and at most 1 on non-positive arguments, '
        'exp(0) = 1 (axioms on the uninterpreted exp)',
        'C14: rng.random returns values in [0, 1); the expectation of the '
        'stochastic rounding is not machine-checked',
        'C14: np.repeat index map is monotone with multiplicities = repeats',
    ]


_cache = {}


def replay(r, tier, seed):
    from .common import run_runtime
    if 'rt' not in _cache:
        _cache['rt'] = run_runtime('check_c14.py', [])
    return _cache['rt']
