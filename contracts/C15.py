"""C15 - Prior maps the unit cube to parameters as declared.

Functions under contract (nautilus/prior.py): Prior.add_parameter,
Prior.dimensionality, Prior.unit_to_physical. Python values that flow through
`key` / `dist` (None, strings, tuples, numbers, distribution objects) are
elements of one uninterpreted sort Obj with class predicates; `keys` and
`dists` are symbolic-length lists of Obj.
"""
import ast
import z3

from pyvc.core import (State, Sym, Arr, Arr2, SList, ObjRec, Ref, Opaque,
                       fresh, fresh_fn, uid, I, B, sort_of, OutsideSubset,
                       Raised)
from pyvc import arrays as A
from pyvc.registry import FnContract
from pyvc.symexec import Executor, LoopSpec, View, Lib
from pyvc.verify import verify_function
from .common import new_registry, fn_entry, lemma, forall2

OBLIGATION_FLOOR = 25
PQ = 'nautilus.prior.Prior.'
UNITS = ['add_parameter', 'dimensionality', 'unit_to_physical']

Obj = sort_of('Obj')
is_none = z3.Function('is_none', Obj, z3.BoolSort())
is_str = z3.Function('is_str', Obj, z3.BoolSort())
is_tuple = z3.Function('is_tuple', Obj, z3.BoolSort())
is_num = z3.Function('is_num', Obj, z3.BoolSort())
has_isf = z3.Function('has_isf', Obj, z3.BoolSort())
auto_key = z3.Function('auto_key', z3.IntSort(), Obj)     # 'x_{}'.format(n)
str_of = z3.Function('str_of', Obj, Obj)                  # str(o)
tup_el = z3.Function('tuple_elem', Obj, z3.IntSort(), z3.RealSort())
uniform_of = z3.Function('uniform', z3.RealSort(), z3.RealSort(), Obj)
ISF = z3.Function('isf', Obj, z3.RealSort(), z3.RealSort())


def obj_axioms(st):
    o = z3.Const('o!q', Obj)
    n, m = z3.Int('n!q'), z3.Int('m!q')
    x, y = z3.Real('x!q'), z3.Real('y!q')
    kinds = [is_none(o), is_str(o), is_tuple(o), is_num(o), has_isf(o)]
    for i in range(len(kinds)):
        for j in range(i + 1, len(kinds)):
            st.assume(z3.ForAll([o], z3.Not(z3.And(kinds[i], kinds[j]))))
    st.assume(z3.ForAll([n], is_str(auto_key(n))))
    st.assume(z3.ForAll([n, m], z3.Implies(auto_key(n) == auto_key(m),
                                           n == m)))
    st.assume(z3.ForAll([o], z3.And(is_str(str_of(o)), z3.Implies(
        is_str(o), str_of(o) == o))))
    # str(None) == 'None' is one particular string
    st.assume(z3.ForAll([o], z3.Implies(is_none(o),
                                        str_of(o) == z3.Const('STR_None', Obj))))
    st.assume(z3.ForAll([x, y], has_isf(uniform_of(x, y))))


def install_obj_theory(reg):
    def isinstance_hook(ex, st, v, ty, node):
        v = ex.deref(st, v)
        if not (isinstance(v, Sym) and v.k == 'Obj'):
            return NotImplemented
        tys = ty if isinstance(ty, tuple) else (ty,)
        fs = []
        for t in tys:
            nm = getattr(t, 'name', None)
            if nm == 'str':
                fs.append(is_str(v.t))
            elif nm == 'tuple':
                fs.append(is_tuple(v.t))
            elif nm == 'numbers.Number':
                fs.append(is_num(v.t))
            else:
                raise OutsideSubset('isinstance(Obj, {!r})'.format(t), node)
        return Sym(z3.Or(*fs) if len(fs) > 1 else fs[0], 'bool')
    reg.isinstance_hook = isinstance_hook

    def hasattr_hook(ex, st, v, name, node):
        v = ex.deref(st, v)
        if isinstance(v, Sym) and v.k == 'Obj' and name == 'isf':
            return Sym(has_isf(v.t), 'bool')
        return NotImplemented
    reg.hasattr_hook = hasattr_hook

    def compare_hook(ex, st, op, a, b):
        if isinstance(a, Sym) and a.k == 'Obj' and isinstance(
                op, (ast.Is, ast.IsNot)):
            return NotImplemented
        return NotImplemented
    reg.compare_hook = compare_hook

    reg.none_test = lambda ex, st, x: is_none(x.t) if x.k == 'Obj' else None

    def str_format(ex, st, s, args, node):
        if s == 'x_{}' and len(args) == 1:
            return Sym(auto_key(I(args[0])), 'Obj')
        return Opaque('str')
    reg.str_format = str_format

    def str_hook(ex, st, v, node):
        if isinstance(v, Sym) and v.k == 'Obj':
            return Sym(str_of(v.t), 'Obj')
        return Opaque('str')
    reg.str_hook = str_hook

    def subscript_hook(ex, st, base, d, sl, node):
        if isinstance(d, Sym) and d.k == 'Obj':
            idx = ex.eval(sl, st)
            return Sym(tup_el(d.t, I(idx)), 'real')
        return NotImplemented
    reg.subscript_hook = subscript_hook

    def uniform(ex, st, args, kw, node):
        from pyvc.arrays import zv
        return Sym(uniform_of(zv(kw['loc'], 'real'), zv(kw['scale'], 'real')),
                   'Obj')
    reg.lib['uniform'] = uniform
    reg.globals['uniform'] = Lib('uniform')

    def slist_method(ex, st, recv, d, name, args, kwargs, node):
        if name == 'index' and d.k == 'Obj':
            x = args[0]
            if not (isinstance(x, Sym) and x.k == 'Obj'):
                raise OutsideSubset('list.index of {!r}'.format(x), node)
            # list.index raises ValueError when the item is absent
            ex.need(st)('index_item_present', A.exists_idx(
                d.n, lambda i: d.at(i) == x.t))
            r = z3.Int(uid('index'))
            st.assume(z3.And(r >= 0, r < d.n, d.at(r) == x.t))
            st.assume(A.forall_idx(r, lambda j: d.at(j) != x.t))
            return Sym(r, 'int')
        return NotImplemented
    reg.slist_method = slist_method

    def isf_method(ex, st, d, args, kwargs, node):
        x = ex.deref(st, args[0])
        if isinstance(x, Arr):
            return st.alloc(Arr(x.n, lambda i: ISF(d.t, x.at(i)), 'real'), 'isf')
        if isinstance(x, Sym):
            return Sym(ISF(d.t, x.t), 'real')
        raise OutsideSubset('isf of {!r}'.format(x), node)
    reg.sort_methods[('Obj', 'isf')] = isf_method


def free_mask(dists):
    return Arr(dists.n, lambda i: z3.And(z3.Not(is_num(dists.at(i))),
                                         z3.Not(is_str(dists.at(i)))), 'bool')


def inv_prior(keys, dists, tgt):
    """InvPr over lists keys/dists and the ghost link-target map tgt"""
    n = dists.n
    i, j = A.qi('i'), A.qi('j')
    return [
        ('same_length', keys.n == n),
        ('keys_are_strings', A.forall_idx(n, lambda t: is_str(keys.at(t)))),
        ('keys_distinct', z3.ForAll([i, j], z3.Implies(
            z3.And(i >= 0, i < j, j < n), keys.at(i) != keys.at(j)))),
        ('dists_classified', A.forall_idx(n, lambda t: z3.Or(
            has_isf(dists.at(t)), is_num(dists.at(t)), is_str(dists.at(t))))),
        ('links_point_to_earlier_nonlink', A.forall_idx(n, lambda t: z3.Implies(
            is_str(dists.at(t)), z3.And(
                tgt(t) >= 0, tgt(t) < t, keys.at(tgt(t)) == dists.at(t),
                z3.Not(is_str(dists.at(tgt(t)))))))),
    ]


def make_prior(ex, st, G):
    obj_axioms(st)
    n = z3.Int(uid('n_params'))
    st.assume(n >= 0)
    keys = A.fresh_slist(st, 'Obj', 'keys', n=n)
    dists = A.fresh_slist(st, 'Obj', 'dists', n=n)
    tgt = fresh_fn(['int'], 'int', 'link_target')
    G.update(keys=keys, dists=dists, tgt=tgt, n=n)
    for (nm, f) in inv_prior(keys, dists, tgt):
        st.assume(f)
    return st.alloc(ObjRec('Prior', dict(keys=st.alloc(keys, 'keys'),
                                         dists=st.alloc(dists, 'dists'))),
                    'self')


def add_parameter_contract(G):
    def post(Vo, Vn, res):
        ko, do = Vo('self.keys'), Vo('self.dists')
        kn, dn = Vn('self.keys'), Vn('self.dists')
        key, dist = Vo.raw('key'), Vo.raw('dist')
        n = do.n
        knew = kn.at(n)
        dnew = dn.at(n)
        tgt = G['tgt']
        w = z3.Int(uid('witness'))
        tgt2 = lambda t: z3.If(t == n, w, tgt(t))  # noqa: E731
        out = [
            ('one_record_appended', z3.And(
                kn.n == n + 1, dn.n == n + 1,
                A.forall_idx(n, lambda t: z3.And(kn.at(t) == ko.at(t),
                                                 dn.at(t) == do.at(t))))),
            ('key_as_declared', z3.If(is_none(key.t), knew == auto_key(n),
                                      knew == key.t)),
            ('dist_as_declared', z3.And(
                z3.Implies(is_tuple(dist.t), dnew == uniform_of(
                    tup_el(dist.t, 0), tup_el(dist.t, 1) - tup_el(dist.t, 0))),
                z3.Implies(z3.Or(is_num(dist.t), has_isf(dist.t)),
                           dnew == dist.t),
                z3.Implies(is_str(dist.t), z3.And(
                    is_str(dnew), A.exists_idx(n, lambda t: z3.And(
                        ko.at(t) == dnew,
                        z3.Not(is_str(do.at(t))))))))),
        ]
        # the invariant is kept; the witness of the new link is the index the
        # code resolved the chain to (a choice function over the old keys)
        hyp = z3.Implies(A.exists_idx(n, lambda t: z3.And(
            ko.at(t) == dnew, z3.Not(is_str(do.at(t))))),
            z3.And(w >= 0, w < n, ko.at(w) == dnew,
                   z3.Not(is_str(do.at(w)))))
        Vn.st.assume(hyp)
        for (nm, f) in inv_prior(kn, dn, tgt2):
            out.append(('inv_' + nm, f))
        return out

    def raises(Vo, Vn, exc):
        ko, do = Vo('self.keys'), Vo('self.dists')
        kn, dn = Vn('self.keys'), Vn('self.dists')
        return [
            ('raises_only_declared', z3.BoolVal(
                exc in ('ValueError', 'TypeError'))),
            ('rejected_leaves_keys_unchanged', A.arr_eq(
                Arr(kn.n, kn.fn, 'Obj'), Arr(ko.n, ko.fn, 'Obj'))),
            ('rejected_leaves_dists_unchanged', A.arr_eq(
                Arr(dn.n, dn.fn, 'Obj'), Arr(do.n, do.fn, 'Obj'))),
        ]

    def inv0(V):
        # while isinstance(self.dists[self.keys.index(dist)], str)
        ko, do = G['keys'], G['dists']
        d = V.raw('dist')
        n = do.n
        return [('chain_stays_on_declared_keys', z3.And(
            is_str(d.t), A.exists_idx(n, lambda t: ko.at(t) == d.t)))]

    return FnContract(PQ + 'add_parameter', params=['key', 'dist'],
                      post=post, raises=raises,
                      mod_fields=[], loops={0: LoopSpec(inv=inv0)})


def build(cx, fe, tier, info, only=None):
    reg = new_registry(fe)
    install_obj_theory(reg)
    ex = Executor(cx, fe, reg)
    _EX['ex'] = ex
    # ---- add_parameter
    if only in (None, 'add_parameter'):
        G = {}
        c = add_parameter_contract(G)

        def env(ex_, st):
            self_ = make_prior(ex_, st, G)
            return dict(self=self_, key=fresh('Obj', 'key'),
                        dist=fresh('Obj', 'dist'))
        verify_function(ex, PQ + 'add_parameter', c, env, check_frame=False)
        fn_entry(fe, info, PQ + 'add_parameter')
    # ---- dimensionality
    if only in (None, 'dimensionality'):
        G2 = {}

        def post_dim(Vo, Vn, res):
            d = Vo('self.dists')
            return [('counts_free_parameters',
                     I(res) == A.count(Vn.st, free_mask(d)))]
        c2 = FnContract(PQ + 'dimensionality', post=post_dim)

        def env2(ex_, st):
            return dict(self=make_prior(ex_, st, G2))
        verify_function(ex, PQ + 'dimensionality', c2, env2)
        fn_entry(fe, info, PQ + 'dimensionality')
    # ---- unit_to_physical
    if only in (None, 'unit_to_physical'):
        unit_to_physical_unit(cx, fe, info, reg, ex)
    info['assumptions'] = [
        'C15: a distribution object (has isf) is not a str, number or tuple; '
        'isf is a pure function (isf(1-u) is the inverse CDF at u)',
        "C15: 'x_{}'.format(n) is injective in n; str(None) is one string",
    ]
    info['bounded_functions'] = ['Prior.physical_to_dictionary (dict theory '
                                 'not modelled): bounded runtime check']


def prefix_count(st, m):
    """pc(k) = number of True entries of mask m in [0, k)"""
    pc = fresh_fn(['int'], 'int', 'prefcount')
    k = A.qi('k')
    st.assume(pc(0) == 0)
    st.assume(A.QForAll([k], z3.Implies(
        z3.And(k >= 0, k < m.n),
        pc(k + 1) == pc(k) + z3.If(m.at(k), 1, 0)), patterns=[pc(k)]))
    st.assume(A.QForAll([k], z3.Implies(z3.And(k >= 0, k <= m.n), z3.And(
        pc(k) >= 0, pc(k) <= k)), patterns=[pc(k)]))
    c, sel, rank = A.sel_of(st, m)
    st.assume(pc(m.n) == c)
    st.assume(A.QForAll([k], z3.Implies(
        z3.And(k >= 0, k < m.n, m.at(k)), rank(k) == pc(k)),
        patterns=[rank(k)]))
    return pc


def unit_to_physical_unit(cx, fe, info, reg, ex):
    G = {}

    def env(ex_, st):
        self_ = make_prior(ex_, st, G)
        nr = z3.Int(uid('n_rows'))
        st.assume(nr >= 0)
        m = free_mask(G['dists'])
        c, sel, rank = A.sel_of(st, m)
        G['pc'] = prefix_count(st, m)
        G['sel'], G['cnt'] = sel, c
        pts = A.fresh_arr2(st, nr, None, 'points')
        G['points'] = pts
        # dimensionality(): contract of the callee
        return dict(self=self_, points=st.alloc(pts, 'points'))

    def spec_cols(res, upto):
        pts, d, sel = G['points'], G['dists'], G['sel']
        return forall2(pts.nr, pts.nc, lambda r, c: z3.Implies(
            upto(c), res.at(r, c) == ISF(d.at(sel(c)), 1 - pts.at(r, c))))

    def post(Vo, Vn, res):
        r = Vn.ex.deref(Vn.st, res)
        pts = G['points']
        return [('shape_preserved', z3.And(r.nr == pts.nr, r.nc == pts.nc)),
                ('column_i_is_inverse_cdf_of_ith_free_parameter',
                 spec_cols(r, lambda c: z3.BoolVal(True))),
                ('input_unchanged', z3.BoolVal(
                    Vn('points') is Vo('points')))]

    def raises(Vo, Vn, exc):
        pts = G['points']
        return [('only_value_error_on_dimension_mismatch', z3.And(
            z3.BoolVal(exc == 'ValueError'), G['cnt'] != pts.nc))]

    def inv0(V):
        kk = V.k(0)
        i = V.int('i')
        ph = V('phys_points')
        pts = G['points']
        return [('i_counts_free_so_far', i == G['pc'](kk)),
                ('shape', z3.And(ph.nr == pts.nr, ph.nc == pts.nc)),
                ('columns_done', spec_cols(ph, lambda c: c < i))]

    c_dim = FnContract(
        PQ + 'dimensionality',
        result=lambda ex_, st, V: fresh('int', 'dim'),
        post=lambda Vo, Vn, res: [('counts_free', I(res) == G['cnt'])])
    reg.add_contract(c_dim)
    c = FnContract(PQ + 'unit_to_physical', params=['points'], post=post,
                   raises=raises, loops={0: LoopSpec(inv=inv0)})
    verify_function(ex, PQ + 'unit_to_physical', c, env)
    fn_entry(fe, info, PQ + 'unit_to_physical')


_EX = {}


def _branch_cov():
    return _EX['ex'].branch_cov if 'ex' in _EX else []


def _branch_all():
    return _EX['ex'].branch_all if 'ex' in _EX else []


BRANCH_COVERED_FUNCTIONS = (PQ + 'add_parameter', PQ + 'unit_to_physical')
DEAD_BRANCHES = ()


_cache = {}


def replay(r, tier, seed):
    """The counter-model of an add_parameter obligation is a declaration
    sequence; the runtime leg enumerates all sequences up to length 2 over a
    small alphabet on the real Prior and reports the first failing ones."""
    from .common import run_runtime
    if 'rt' not in _cache:
        _cache['rt'] = run_runtime('check_c15.py', [2])
    return _cache['rt']


def bounded(tier, seed):
    from .common import run_runtime
    n = 3 if tier == 'thorough' else 2
    rt = run_runtime('check_c15.py', [n])
    viol = [dict(id='enumeration', **rt)] if rt.get('found') else []
    return [dict(name='C15/bounded/declaration_sequences',
                 what='all declaration sequences up to length {} over 7 keys x '
                      '8 dists on the real Prior: rejection leaves the prior '
                      'unchanged, keys unique, links valid, dimensionality, '
                      'unit_to_physical columns, physical_to_dictionary '
                      '(the last one has no proof: dict theory not modelled)'
                      .format(n),
                 bound='length <= {}'.format(n), observed=rt.get('observed'),
                 error=rt.get('error'), violations=viol)]
