"""C16 - periodic phase shift is a bijection of the unit cube.

Functions under contract: nautilus.bounds.periodic.PhaseShift.transform (reals:
functional spec + frame; binary64: range closure), PhaseShift.compute (gap).
"""
import z3

from pyvc.core import (State, Sym, Arr, Arr2, ObjRec, Ref, fresh, fresh_fn,
                       uid, I, B)
from pyvc import arrays as A
from pyvc.core import Ctx
from pyvc.registry import FnContract
from pyvc.symexec import Executor, LoopSpec, View
from pyvc.verify import verify_function
from .common import new_registry, fn_entry, forall2, lemma

OBLIGATION_FLOOR = 30
Z3_TIMEOUT_MS = 60000

Q = 'nautilus.bounds.periodic.PhaseShift.'


def frac(y):
    return y - z3.ToReal(z3.ToInt(y))


def shift_real(x, c, inv):
    """Spec function (reals): the phase shift of one coordinate."""
    s = z3.If(inv, z3.RealVal(-1), z3.RealVal(1))
    return frac(x + s * (-c + z3.RealVal('0.5')))


def fp_lt(a, b):
    return z3.fpLT(a, b)


def in_unit(t, k):
    if k == 'fp':
        return z3.And(z3.fpLEQ(z3.FPVal(0.0, z3.Float64()), t),
                      z3.fpLT(t, z3.FPVal(1.0, z3.Float64())))
    return z3.And(t >= 0, t < 1)


def make_transform_env(k, G):
    def make(ex, st):
        n_p = z3.Int(uid('n_periodic'))
        nr = z3.Int(uid('n_rows'))
        nc = z3.Int(uid('n_dim'))
        st.assume(z3.And(n_p >= 0, nr >= 0, nc >= 1))
        periodic = A.fresh_arr(st, 'int', 'periodic', n=n_p)
        centers = A.fresh_arr(st, k, 'centers', n=n_p)
        points = A.fresh_arr2(st, nr, nc, 'points', k)
        pidx = fresh_fn(['int'], 'int', 'pidx')
        j, c = A.qi('j'), A.qi('c')
        # type invariant of the input: periodic holds distinct, valid column
        # indices (pidx is its inverse map, -1 elsewhere)
        st.assume(z3.ForAll([j], z3.Implies(
            z3.And(j >= 0, j < n_p),
            z3.And(periodic.at(j) >= 0, periodic.at(j) < nc,
                   pidx(periodic.at(j)) == j)), patterns=[periodic.at(j)]))
        st.assume(z3.ForAll([c], z3.And(pidx(c) >= -1, pidx(c) < n_p,
                                        z3.Implies(
            pidx(c) >= 0, periodic.at(pidx(c)) == c)), patterns=[pidx(c)]))
        inv = fresh('bool', 'inverse') if G.get('inv_concrete') is None \
            else G['inv_concrete']
        G.update(pidx=pidx, k=k, points=points, centers=centers,
                 periodic=periodic, inverse=inv)
        self_ = st.alloc(ObjRec('PhaseShift', dict(
            periodic=st.alloc(periodic, 'periodic'),
            centers=st.alloc(centers, 'centers'))), 'self')
        return dict(self=self_, points=st.alloc(points, 'points'), inverse=inv)
    return make


def transform_contract(k, G):
    def pre(V):
        out = []
        if k == 'fp':
            pts, cen = V('points'), V('self.centers')
            out.append(('points_in_cube', forall2(
                pts.nr, pts.nc, lambda r, c: in_unit(pts.at(r, c), 'fp'))))
            out.append(('centers_in_unit', A.forall_idx(
                cen.n, lambda i: in_unit(cen.at(i), 'fp'))))
        return out

    def body(V, Vo, upto):
        """points_t relative to the input, columns with pidx < upto shifted."""
        pidx = G['pidx']
        pts = Vo('points')
        cen = Vo('self.centers')
        inv = B(G['inverse'])
        res = V
        out = [('shape', z3.And(res.nr == pts.nr, res.nc == pts.nc))]
        if k == 'real':
            out.append(('values', forall2(pts.nr, pts.nc, lambda r, c: res.at(
                r, c) == z3.If(
                z3.And(pidx(c) >= 0, upto(pidx(c))),
                shift_real(pts.at(r, c), cen.at(pidx(c)), inv),
                pts.at(r, c)))))
        else:
            out.append(('range_binary64', forall2(
                pts.nr, pts.nc, lambda r, c: z3.If(
                    z3.And(pidx(c) >= 0, upto(pidx(c))),
                    in_unit(res.at(r, c), 'fp'),
                    res.at(r, c) == pts.at(r, c)))))
        return out

    def post(Vo, Vn, res):
        ex, st = Vn.ex, Vn.st
        r = ex.deref(st, res)
        out = body(r, Vo, lambda p: z3.BoolVal(True))
        # the caller's array is neither returned nor modified
        out.append(('result_is_fresh_array', z3.BoolVal(
            isinstance(res, Ref) and res.oid != Vo.raw('points').oid)))
        out.append(('input_unchanged', z3.BoolVal(
            Vn('points') is Vo('points'))))
        return out

    def inv0(V):
        Vo = View(V.ex, G['old'])
        kk = V.k(0)
        return body(V('points_t'), Vo, lambda p: p < kk)

    c = FnContract(Q + 'transform', params=['points', 'inverse'],
                   defaults=dict(inverse=False), pre=pre, post=post,
                   loops={0: LoopSpec(inv=inv0)})
    return c


def compute_unit(cx, fe, info):
    """PhaseShift.compute: the centre of periodic parameter i is chosen such
    that the forward shift puts the middle of the largest cyclic gap of column
    periodic[i] of the construction points on the boundary: every shifted
    construction coordinate keeps a distance of half that gap from 0 and 1."""
    from pyvc.core import ClassVal
    from pyvc.lib import array_fn
    reg = new_registry(fe)
    ex = Executor(cx, fe, reg)
    G = {}
    MGW = fresh_fn(['int'], 'real', 'largest_gap')   # ghost: witness per i
    F = z3.BoolVal(False)

    def env(ex_, st):
        n_p = z3.Int(uid('n_periodic'))
        nr = z3.Int(uid('n_rows'))
        nc = z3.Int(uid('n_dim'))
        st.assume(z3.And(n_p >= 0, nr >= 1, nc >= 1))
        periodic = A.fresh_arr(st, 'int', 'periodic', n=n_p)
        points = A.fresh_arr2(st, nr, nc, 'points', 'real')
        st.assume(A.forall_idx(n_p, lambda j: z3.And(
            periodic.at(j) >= 0, periodic.at(j) < nc)))
        st.assume(forall2(nr, nc, lambda r, c: in_unit(points.at(r, c),
                                                       'real')))
        G.update(points=points, periodic=periodic)
        return dict(cls=ClassVal('PhaseShift'),
                    points=st.alloc(points, 'points'),
                    periodic=st.alloc(periodic, 'periodic'))

    def gap_ok(cen, upto):
        pts, per = G['points'], G['periodic']
        i, r = A.qi('i'), A.qi('r')
        return z3.ForAll([i, r], z3.Implies(
            z3.And(i >= 0, i < upto, r >= 0, r < pts.nr), z3.And(
                MGW(i) >= 0,
                shift_real(pts.at(r, per.at(i)), cen.at(i), F) >= MGW(i) / 2,
                shift_real(pts.at(r, per.at(i)), cen.at(i), F) <=
                1 - MGW(i) / 2)))

    def inv0(V):
        cen = V('bound.centers')
        return [('centers_len', cen.n == G['periodic'].n),
                ('largest_gap_across_the_boundary', gap_ok(cen, V.k(0))),
                ('centers_in_unit', A.forall_idx(V.k(0), lambda i: z3.And(
                    cen.at(i) >= 0, cen.at(i) < 1)))]

    def step0(Vs, Ve):
        st = Ve.st
        i = Ve.k(0)
        pts, per = G['points'], G['periodic']
        x, dx = Ve('x'), Ve('dx')
        g = array_fn(st, 'amax', A.to_real(dx), 'real')
        cen0, cen1 = Vs('bound.centers'), Ve('bound.centers')
        tag = x.tag if isinstance(x.tag, tuple) else (None,)
        out = [('x_is_the_sorted_column_periodic_i', z3.And(
            z3.BoolVal(tag[0] == 'sorted'), x.n == pts.nr, *(
                [A.forall_idx(x.n, lambda t: x.at(t) == pts.at(
                    tag[2](t), per.at(i)))] if tag[0] == 'sorted' else []))),
            ('dx_are_the_cyclic_gaps', z3.And(
                dx.n == x.n,
                A.forall_idx(x.n - 1, lambda t: dx.at(t) == x.at(t + 1) -
                             x.at(t)),
                dx.at(x.n - 1) == x.at(0) - x.at(x.n - 1) + 1)),
            ('lemma_largest_gap_is_attained_at_the_argmax', z3.And(
                g >= 0, A.exists_idx(dx.n, lambda t: z3.And(
                    dx.at(t) == g, cen1.at(i) == frac(
                        x.at(t) + g / 2 + z3.RealVal('0.5')))))),
            ('lemma_sorted_values_keep_half_the_gap', A.forall_idx(
                x.n, lambda t: z3.And(
                    shift_real(x.at(t), cen1.at(i), F) >= g / 2,
                    shift_real(x.at(t), cen1.at(i), F) <= 1 - g / 2))),
            ('lemma_every_row_is_a_sorted_value', A.forall_idx(
                pts.nr, lambda r: z3.And(
                    tag[3](r) >= 0, tag[3](r) < x.n, x.at(tag[3](r)) ==
                    pts.at(r, per.at(i))) if tag[0] == 'sorted' else F)),
            ('shifted_points_keep_half_the_largest_gap_from_the_boundary',
             A.forall_idx(pts.nr, lambda r: z3.And(
                 g >= 0,
                 shift_real(pts.at(r, per.at(i)), cen1.at(i), F) >= g / 2,
                 shift_real(pts.at(r, per.at(i)), cen1.at(i), F) <=
                 1 - g / 2))),
            ('other_centres_untouched', z3.And(cen1.n == cen0.n, A.forall_idx(
                cen0.n, lambda t: z3.Implies(t != i, cen1.at(t) ==
                                             cen0.at(t)))))]
        # ghost assignment: the witness of iteration i (unconstrained so far:
        # the invariant speaks about indices below i only)
        st.assume(MGW(i) == g)
        return out

    def post(Vo, Vn, res):
        rec = Vn.st.cell(res)
        cen = Vn.ex.deref(Vn.st, rec.fields['centers'])
        per = Vn.ex.deref(Vn.st, rec.fields['periodic'])
        return [('periodic_stored', z3.BoolVal(per is G['periodic'])),
                ('one_centre_per_periodic_parameter',
                 cen.n == G['periodic'].n),
                ('largest_gap_across_the_boundary', gap_ok(
                    cen, G['periodic'].n)),
                ('centres_in_unit', A.forall_idx(cen.n, lambda i: z3.And(
                    cen.at(i) >= 0, cen.at(i) < 1)))]
    c = FnContract(Q + 'compute', params=['points', 'periodic'], post=post,
                   loops={0: LoopSpec(inv=inv0, step=step0)})
    verify_function(ex, Q + 'compute', c, env, frame_obj='none',
                    check_frame=False)
    fn_entry(fe, info, Q + 'compute')


def build(cx, fe, tier, info, only=None):
    # ---- transform, reals: functional spec + frame
    for (k, invc) in (('real', None), ('fp', False), ('fp', True)):
        reg = new_registry(fe)
        ex = Executor(cx, fe, reg)
        G = dict(inv_concrete=invc)
        c = transform_contract(k, G)
        mk = make_transform_env(k, G)

        def mk2(ex_, st, mk=mk, G=G):
            env = mk(ex_, st)
            G['old'] = st.copy()
            G['old'].env = dict(env)
            return env
        tag = '' if k == 'real' else '[binary64,inverse={}]'.format(invc)
        verify_function(ex, Q + 'transform', c, mk2, tag=tag)
    fn_entry(fe, info, Q + 'transform')

    compute_unit(cx, fe, info)

    # ---- lemmas over the spec function (reals)
    x, c = z3.Real('x'), z3.Real('c')
    for invflag in (False, True):
        b = z3.BoolVal(invflag)
        lemma(cx, 'range_real/inverse={}'.format(invflag), [x >= 0, x < 1],
              z3.And(shift_real(x, c, b) >= 0, shift_real(x, c, b) < 1))
        lemma(cx, 'inverse_undoes_shift/inverse_first={}'.format(invflag),
              [x >= 0, x < 1],
              shift_real(shift_real(x, c, b), c, z3.BoolVal(not invflag)) == x)
    info['assumptions'] = [
        'C16: compute: gap placement proved over the reals; np.sort / np.diff '
        '/ np.argmax / np.amax are library models (sorted permutation, first '
        'maximum); at least one construction point',
        'C16: the inverse law is proved over the reals; in binary64 it holds '
        'only up to rounding and is not proved (DESIGN.md 7, C16)',
        'C16: `periodic` holds distinct valid column indices (type invariant '
        'of the input; user-supplied)',
    ]


_cache = {}


def replay(r, tier, seed):
    """Turn the solver's counter-model into inputs of the real function."""
    import json
    import subprocess
    from pyvc.frontend import REPO
    if 'binary64' not in r['name']:
        # search on the real code: random / adversarial point sets and
        # periodic index sets
        from .common import run_runtime
        if 'rt' not in _cache:
            _cache['rt'] = run_runtime('check_c16.py', ['quick'], timeout=900)
        return _cache['rt']
    apps = (r.get('model') or {}).get('__apps__', {})
    xs = [float(v) for k, v in apps.items() if k.startswith('points')]
    cs = [float(v) for k, v in apps.items() if k.startswith('centers')]
    cases = [(x, c, inv) for x in xs for c in cs for inv in (False, True)
             if 0 <= x < 1 and 0 <= c < 1]
    if not cases:
        return dict(found=False, note='model has no usable point/center')
    cmd = ['/venv/bin/python', 'runtime/replay_c16.py', REPO,
           json.dumps(cases)]
    import os
    p = subprocess.run(cmd, capture_output=True, text=True,
                       cwd=os.path.dirname(os.path.dirname(
                           os.path.abspath(__file__))))
    bad = json.loads(p.stdout or '[]') if p.returncode in (0, 1) else []
    return dict(found=bool(bad), cmd=cmd, observed=bad,
                stderr=p.stderr[-500:])
