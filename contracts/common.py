"""Shared helpers for contract modules."""
import z3

from pyvc.core import (State, Sym, Arr, Arr2, LArr, SList, PyList, ObjRec, Ref,
                       Opaque, fresh, fresh_fn, uid, I, B)
from pyvc import arrays as A
from pyvc.registry import Registry, FnContract
from pyvc.symexec import Executor, LoopSpec, View
from pyvc.verify import verify_function

CLASSES = {
    'Sampler': 'nautilus.sampler',
    'Prior': 'nautilus.prior',
    'NautilusPool': 'nautilus.pool',
    'UnitCube': 'nautilus.bounds.basic',
    'Ellipsoid': 'nautilus.bounds.basic',
    'UnitCubeEllipsoidMixture': 'nautilus.bounds.basic',
    'Union': 'nautilus.bounds.union',
    'NautilusBound': 'nautilus.bounds.nautilus',
    'NeuralBound': 'nautilus.bounds.neural',
    'PhaseShift': 'nautilus.bounds.periodic',
    'NeuralNetworkEmulator': 'nautilus.neural',
}


def new_registry(fe):
    reg = Registry()
    reg.fe = fe
    for c, m in CLASSES.items():
        reg.add_class(c, m)
    return reg


def fn_entry(fe, info, qualname, status='proved'):
    d = fe.get(qualname).describe()
    d['status'] = status
    if not any(x['qualname'] == qualname for x in info['functions']):
        info['functions'].append(d)


def forall2(nr, nc, body):
    r, c = A.qi('r'), A.qi('c')
    return z3.ForAll([r, c], z3.Implies(
        z3.And(r >= 0, r < nr, c >= 0, c < nc), body(r, c)))


def lemma(cx, name, hyps, goal, **meta):
    """A stand-alone lemma over spec functions (no code involved)."""
    st = State()
    for h in hyps:
        st.assume(h)
    saved = cx.prefix
    cx.prefix = 'lemma/'
    cx.line = None
    cx.oblige(st, name, goal, kind='lemma', **meta)
    cx.prefix = saved


def canary(cx, st, name):
    """An obligation that must NOT be provable (context consistency)."""
    saved = cx.prefix
    cx.oblige(st.copy(), 'canary/' + name, z3.BoolVal(False), kind='canary',
              canary=True)
    cx.prefix = saved


def run_runtime(script, args, timeout=900):
    """Run a runtime/ script under the repo's interpreter against REPO."""
    import json
    import os
    import subprocess
    from pyvc.frontend import REPO
    root = os.path.dirname(os.path.dirname(os.path.abspath(__file__)))
    cmd = ['/venv/bin/python', os.path.join('runtime', script), REPO] + \
        [str(a) for a in args]
    # small problems: BLAS / OpenMP thread pools only add contention
    env = dict(os.environ, OMP_NUM_THREADS='1', OPENBLAS_NUM_THREADS='1',
               MKL_NUM_THREADS='1')
    try:
        p = subprocess.run(cmd, capture_output=True, text=True, cwd=root,
                           timeout=timeout, env=env)
    except subprocess.TimeoutExpired:
        return dict(found=False, cmd=cmd, error='timeout')
    out = None
    for line in reversed((p.stdout or '').strip().splitlines()):
        try:
            out = json.loads(line)
            break
        except ValueError:
            continue
    if p.returncode not in (0, 1) or out is None:
        return dict(found=False, cmd=cmd, error='runtime script failed',
                    stderr=(p.stderr or '')[-1500:], rc=p.returncode)
    return dict(found=p.returncode == 1, cmd=cmd, observed=out)
