"""Contract of Sampler.posterior shared by C02 (weights), C03 (faithful rows)
and C14 (equal-weight resampling)."""
import z3

from pyvc.core import (State, Sym, Arr, LArr, SList, PyList, ObjRec, Ref,
                       Opaque, fresh, fresh_fn, uid, I, B, OutsideSubset,
                       sort_of)
from pyvc import arrays as A
from pyvc.arrays import zv
from pyvc.npmodel import MaybeNone, f_log, f_exp, f_floor, NEG_INF
from pyvc.registry import FnContract
from pyvc.symexec import LoopSpec, View, Lib, BoundMethod, IterDom
from pyvc.lib import lse_term, array_fn, repeat_info, sum_term
from . import sampler_model as M
from .sampler_model import S, SQ, L, Bl, blobs_of

Phys = sort_of('Phys')
T = z3.Function('prior_transform', M.Pt, Phys)
PRIOR_CALLABLE = z3.Bool('prior_is_a_function')


def install_user_function_theory(reg):
    def callable_hook(ex, st, v, node):
        if isinstance(v, Opaque) and v.what == 'prior':
            return Sym(PRIOR_CALLABLE, 'bool')
        raise OutsideSubset('callable({!r})'.format(v), node)
    reg.callable_hook = callable_hook

    def transform_arr(ex, st, p):
        p = ex.deref(st, p)
        if isinstance(p, Arr) and p.k == 'Pt':
            return st.alloc(Arr(p.n, lambda j: T(p.at(j)), 'Phys'), 'phys')
        raise OutsideSubset('transform of {!r}'.format(p))

    def prior_method(ex, st, args, kw, node):
        return transform_arr(ex, st, args[1])
    reg.lib['prior.unit_to_dictionary'] = prior_method
    reg.lib['prior.unit_to_physical'] = prior_method

    def opaque_call(ex, st, f, args, kw, node):
        if f.what == 'prior':
            return transform_arr(ex, st, args[0])
        raise OutsideSubset('call of {!r}'.format(f), node)
    reg.opaque_call = opaque_call

    def b_map(ex, st, args, kw, node):
        f, xs = args[0], args[1]
        if (isinstance(f, Opaque) and f.what == 'prior') or (
                isinstance(f, BoundMethod) and isinstance(
                    ex.deref(st, f.recv), Opaque)):
            return transform_arr(ex, st, xs)
        raise OutsideSubset('map({!r}, ...)'.format(f), node)
    reg.lib['map'] = b_map
    prev = reg.getattr_hook

    def getattr_hook(ex, st, o, d, name, node):
        if isinstance(d, Opaque) and d.what == 'prior':
            return BoundMethod(o, name)
        if prev is not None:
            return prev(ex, st, o, d, name, node)
        return NotImplemented
    reg.getattr_hook = getattr_hook


def exp_axioms(st):
    x = z3.Real('x!q')
    st.assume(z3.ForAll([x], z3.Implies(x <= 0, z3.And(f_exp(x) > 0,
                                                       f_exp(x) <= 1)),
                        patterns=[f_exp(x)]))
    st.assume(f_exp(0) == 1)


def weighted_view(V):
    """spec: the weighted posterior (points, log_v, log_l, blobs) of the
    stored samples in the current view, built with the same library theory the
    code is executed with (np.concatenate / np.repeat index maps)"""
    st = V.st
    nb = S(V, 'bounds').n
    disc = z3.And(V.bool('self._discard_exploration'), V.bool('self.explored'))
    ee = S(V, 'shell_end_exp')
    start = lambda i: z3.If(disc, ee.at(i), z3.IntVal(0))  # noqa: E731
    pts, ll = S(V, 'points'), S(V, 'log_l')
    Lp = LArr(pts.n, lambda i: pts.alen(i) - start(i),
              lambda i, j: pts.at(i, start(i) + j), 'Pt')
    Ll = LArr(ll.n, lambda i: ll.alen(i) - start(i),
              lambda i, j: ll.at(i, start(i) + j), 'real')
    P, _ = A.concat_larr(st, Lp)
    Lg, _ = A.concat_larr(st, Ll)
    sn, slv = S(V, 'shell_n'), S(V, 'shell_log_v')
    per_shell = Arr(slv.n, lambda i: slv.at(i) - f_log(z3.ToReal(
        z3.If(sn.at(i) >= 1, sn.at(i), z3.IntVal(1)))), 'real')
    info = repeat_info(st, sn)
    G_ = st.ghost.setdefault('_keep', [])
    G_.append(sn)
    V_ = Arr(info.tot, lambda j: per_shell.at(info.src(j)), 'real')
    out = dict(points=P, log_l=Lg, log_v=V_)
    bn, bl = blobs_of(V)
    if bl is not None:
        Lb = LArr(bl.n, lambda i: bl.alen(i) - start(i),
                  lambda i, j: bl.at(i, start(i) + j), 'Blob')
        Bb, _ = A.concat_larr(st, Lb)
        out['blobs'] = Bb
    return out


def posterior_contract():
    def pre(V):
        exp_axioms(V.st)
        nb = S(V, 'bounds').n
        out = M.InvAll(V)
        out.append(('at_least_one_shell', nb >= 1))
        out.append(('boost_positive', zv(V.raw('equal_weight_boost'),
                                         'real') > 0))
        out += M.inv_A(V)
        # equal-weight resampling needs at least one sample in the view
        # (np.amax of an empty array raises)
        disc = z3.And(V.bool('self._discard_exploration'),
                      V.bool('self.explored'))
        ee, ll = S(V, 'shell_end_exp'), S(V, 'log_l')
        lens = Arr(ll.n, lambda i: ll.alen(i) - z3.If(
            disc, ee.at(i), z3.IntVal(0)), 'int')
        out.append(('view_not_empty', z3.Implies(
            B(V.raw('equal_weight')), sum_term(V.st, lens) >= 1)))
        return out

    def post(Vo, Vn, res):
        ex, st = Vn.ex, Vn.st
        eqw = B(Vo.raw('equal_weight'))
        rb = B(Vo.raw('return_blobs'))
        boost = zv(Vo.raw('equal_weight_boost'), 'real')
        if not isinstance(res, tuple):
            return [('result_is_tuple', z3.BoolVal(False))]
        op = ex.deref(st, res[0])
        ow = ex.deref(st, res[1])
        ol = ex.deref(st, res[2])
        W = weighted_view(Vn)
        wp, wl, wv = W['points'], W['log_l'], W['log_v']
        ww = Arr(wl.n, lambda j: wv.at(j) + wl.at(j), 'real')
        out = [('result_arity', z3.BoolVal(len(res) == 4) == rb
                if not isinstance(Vo.raw('return_blobs'), bool)
                else z3.BoolVal((len(res) == 4) == Vo.raw('return_blobs')))]
        n = wp.n
        # ---- weighted posterior (C02 weights, C03 rows)
        lse_w = lse_term(st, ww)
        out.append(('weighted_rows', z3.Implies(z3.Not(eqw), z3.And(
            op.n == n, ow.n == n, ol.n == n,
            A.forall_idx(n, lambda r: z3.And(
                op.at(r) == T(wp.at(r)), ol.at(r) == wl.at(r),
                ow.at(r) == ww.at(r) - lse_w))))))
        out.append(('A_rows_are_faithful_triples', z3.Implies(
            z3.Not(eqw), A.forall_idx(n, lambda r: ol.at(r) == L(wp.at(r))))))
        # ---- equal weight (C14)
        reps = None
        if Vn.has('repeats'):
            rv = Vn('repeats')
            if isinstance(rv, Arr) and rv.k == 'int':
                reps = rv
        if reps is None:
            reps = A.fresh_arr(st, 'int', 'no_repeats_witness', n=n)
            out.append(('equal_weight_path_has_repeats', z3.Not(eqw)))
            return out
        info = repeat_info(st, reps)
        mx = array_fn(st, 'amax', ww, 'real')
        r_of = lambda j: f_exp(ww.at(j) - mx) * boost  # noqa: E731
        out.append(('C14_counts_floor_or_floor_plus_one', z3.Implies(
            eqw, z3.And(reps.n == n, A.forall_idx(n, lambda j: z3.And(
                z3.ToReal(reps.at(j)) >= f_floor(r_of(j)),
                z3.ToReal(reps.at(j)) <= f_floor(r_of(j)) + 1))))))
        out.append(('C14_no_repeat_if_boost_at_most_one', z3.Implies(
            z3.And(eqw, boost <= 1), A.forall_idx(
                n, lambda j: reps.at(j) <= 1))))
        N = info.tot
        out.append(('C14_order_and_alignment', z3.Implies(eqw, z3.And(
            op.n == N, ol.n == N, ow.n == N,
            A.forall_idx(N, lambda r: z3.And(
                op.at(r) == T(wp.at(info.src(r))),
                ol.at(r) == wl.at(info.src(r))))))))
        zeros = Arr(N, lambda j: z3.RealVal(0), 'real')
        out.append(('C14_weights_equal_and_normalised', z3.Implies(
            eqw, A.forall_idx(N, lambda r: ow.at(r) == 0 - lse_term(
                st, zeros)))))
        if len(res) == 4 and 'blobs' in W:
            ob = ex.deref(st, res[3])
            wb = W['blobs']
            out.append(('blobs_rows', z3.And(
                z3.Implies(z3.Not(eqw), z3.And(ob.n == n, A.forall_idx(
                    n, lambda r: ob.at(r) == wb.at(r)))),
                z3.Implies(eqw, z3.And(ob.n == N, A.forall_idx(
                    N, lambda r: ob.at(r) == wb.at(info.src(r))))))))
        return out

    def raises(Vo, Vn, exc):
        bn, _ = blobs_of(Vo)
        rb = B(Vo.raw('return_blobs'))
        return [('only_documented_value_errors', z3.And(
            z3.BoolVal(exc == 'ValueError'),
            z3.Or(z3.And(rb, bn),
                  z3.And(PRIOR_CALLABLE, Vo.bool('self.pass_dict')))))]

    return FnContract(
        SQ + 'posterior', params=['return_as_dict', 'equal_weight',
                                  'equal_weight_boost', 'return_blobs'],
        defaults=dict(return_as_dict=None, equal_weight=False,
                      equal_weight_boost=1.0, return_blobs=False),
        pre=pre, post=post, raises=raises, mod_fields=[], mod_ghost=['rng'])
