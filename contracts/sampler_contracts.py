"""Contracts of the Sampler methods (callee side = caller side)."""
import z3

from pyvc.core import (State, Sym, Arr, LArr, SList, PyList, FlatList, ObjRec,
                       Ref, Opaque, fresh, fresh_fn, uid, I, B, OutsideSubset)
from pyvc import arrays as A
from pyvc.npmodel import MaybeNone
from pyvc.registry import FnContract
from pyvc.symexec import LoopSpec, View
from . import sampler_model as M
from .sampler_model import S, C, incube, L, Bl, SQ, blobs_of


def norm(idx, n):
    return z3.If(idx < 0, idx + n, idx)


def unwrap(V, name):
    """value of a parameter that may be a MaybeNone: (isnone, derefed value)"""
    v = V.raw(name)
    if isinstance(v, MaybeNone):
        return v.isnone, V.ex.deref(V.st, v.val)
    if v is None:
        return z3.BoolVal(True), None
    return z3.BoolVal(False), V.ex.deref(V.st, v)


# ---------------------------------------------------------------------------
# shell_association

def shell_association_contract():
    def pre(V):
        b = S(V, 'bounds')
        nm = V.raw('n_max')
        out = []
        if nm is not None:
            out.append(('n_max_in_range', z3.And(I(nm) >= 0, I(nm) <= b.n)))
        return out

    def result(ex, st, V):
        p = V('points')
        return st.alloc(A.fresh_arr(st, 'int', 'shell_assoc', n=p.n), 'assoc')

    def post(Vo, Vn, res):
        b = S(Vo, 'bounds')
        p = Vo('points')
        nm = Vo.raw('n_max')
        n_max = b.n if nm is None else I(nm)
        r = Vn.ex.deref(Vn.st, res)
        j, k = A.qi('j'), A.qi('k')
        return [
            ('len', r.n == p.n),
            ('last_containing', z3.ForAll([j], z3.Implies(
                z3.And(j >= 0, j < p.n),
                z3.And(r.at(j) >= -1, r.at(j) < n_max, z3.Implies(
                    r.at(j) >= 0, C(b.at(r.at(j)), p.at(j))))))),
            ('none_later', z3.ForAll([j, k], z3.Implies(
                z3.And(j >= 0, j < p.n, k > r.at(j), k < n_max, k >= 0),
                z3.Not(C(b.at(k), p.at(j)))))),
        ]

    def inv0(V):
        # loop: for i, bound in reversed(list(enumerate(self.bounds[:n_max])))
        b = S(V, 'bounds')
        p = V('points')
        nm = V.raw('n_max')
        n_max = I(nm)
        sh = V('shell')
        kk = V.k(0)            # iterations done; next bound index n_max-1-kk
        j, k = A.qi('j'), A.qi('k')
        return [
            ('len', sh.n == p.n),
            ('assigned_are_last_containing', z3.ForAll([j], z3.Implies(
                z3.And(j >= 0, j < p.n),
                z3.And(sh.at(j) >= -1, sh.at(j) < n_max,
                       z3.Implies(sh.at(j) >= 0, z3.And(
                           sh.at(j) >= n_max - kk,
                           C(b.at(sh.at(j)), p.at(j)))))))),
            ('none_later', z3.ForAll([j, k], z3.Implies(
                z3.And(j >= 0, j < p.n, k > sh.at(j), k >= n_max - kk,
                       k < n_max, k >= 0),
                z3.Not(C(b.at(k), p.at(j)))))),
        ]

    return FnContract(SQ + 'shell_association', params=['points', 'n_max'],
                      defaults=dict(n_max=None), pre=pre, post=post,
                      result=result, loops={0: LoopSpec(inv=inv0)})


# ---------------------------------------------------------------------------
# sample_shell

def sample_shell_contract(G):
    """G: dict that receives the entry snapshot ('old') during verification."""

    def pre(V):
        b = S(V, 'bounds')
        idx = norm(V.int('index'), b.n)
        tn, sh = unwrap(V, 'shell_t')
        out = [('index_in_range', z3.And(idx >= 0, idx < b.n,
                                         V.int('index') >= -b.n)),
               ('n_batch_positive', V.int('self.n_batch') >= 1),
               ('transfer_only_for_last_shell',
                z3.Or(tn, idx == b.n - 1))]
        if sh is not None:
            out.append(('shell_t_is_the_samplers', z3.Implies(
                z3.Not(tn), z3.BoolVal(
                    isinstance(V.raw('shell_t'), (Ref, MaybeNone)) and
                    (V.raw('shell_t').val if isinstance(
                        V.raw('shell_t'), MaybeNone) else V.raw('shell_t')) ==
                    V.raw('self.shell_t')))))
            out.append(('transfer_candidates_consistent', z3.Implies(
                z3.Not(tn), M.p3_facts(b, S(V, 'points_t'), sh))))
        return out

    def result(ex, st, V):
        tn, sh = unwrap(V, 'shell_t')
        pts = st.alloc(A.fresh_arr(st, 'Pt', 'batch'), 'batch')
        nbd = fresh('int', 'n_bound')
        if sh is None:
            return (pts, nbd)
        idx_t = st.alloc(A.fresh_arr(st, 'int', 'idx_t'), 'idx_t')
        # shape of the result depends on shell_t being None
        if V.ex.decide(V.st, tn):
            return (pts, nbd)
        return (pts, nbd, idx_t)

    def post(Vo, Vn, res):
        ex, st = Vn.ex, Vn.st
        b = S(Vo, 'bounds')
        idx = norm(Vo.int('index'), b.n)
        tn, sh_old = unwrap(Vo, 'shell_t')
        _, sh_new = unwrap(Vn, 'shell_t')
        res = ex.deref(st, res) if isinstance(res, Ref) else res
        if not isinstance(res, tuple):
            return [('result_is_tuple', z3.BoolVal(False))]
        pts = ex.deref(st, res[0])
        nbd = I(res[1])
        out = [('post_len', pts.n == Vo.int('self.n_batch')),
               ('post_in_shell', A.forall_idx(
                   pts.n, lambda j: M.good_row(b, idx, pts.at(j)))),
               ('post_n_bound_is_the_number_of_proposals_drawn',
                nbd == M.proposals(Vn.st) - M.proposals(Vo.st))]
        # only the sampled bound's proposal state / statistics flag change
        bb = z3.Const('b!q', M.Bound)
        out.append(('frame_other_bounds_sampling_state', z3.ForAll(
            [bb], z3.Implies(bb != b.at(idx), z3.And(
                z3.Select(M.sstate(Vn.st), bb) ==
                z3.Select(M.sstate(Vo.st), bb),
                z3.Select(M.statfresh(Vn.st), bb) ==
                z3.Select(M.statfresh(Vo.st), bb))))))
        if len(res) == 2:
            out.append(('result_arity', tn))
            out.append(('post_n_bound', nbd >= pts.n))
            out.append(('post_n_bound_last', z3.Implies(
                idx == b.n - 1, nbd == pts.n)))
            return out
        idx_t = ex.deref(st, res[2])
        out.append(('result_arity', z3.Not(tn)))
        out.append(('post_n_bound', nbd >= pts.n + idx_t.n))
        out.append(('post_n_bound_last', z3.Implies(
            idx == b.n - 1, nbd == pts.n + idx_t.n)))
        a, c = A.qi('a'), A.qi('c')
        out.append(('post_idx_t', z3.And(
            z3.ForAll([a], z3.Implies(z3.And(a >= 0, a < idx_t.n), z3.And(
                idx_t.at(a) >= 0, idx_t.at(a) < sh_old.n,
                sh_old.at(idx_t.at(a)) >= 0,
                sh_new.at(idx_t.at(a)) == -1))),
            z3.ForAll([a, c], z3.Implies(
                z3.And(a >= 0, a < c, c < idx_t.n),
                idx_t.at(a) != idx_t.at(c))))))
        out.append(('post_shell_t_frame', z3.And(
            sh_new.n == sh_old.n, A.forall_idx(
                sh_old.n, lambda i: z3.Or(sh_new.at(i) == sh_old.at(i),
                                          sh_new.at(i) == -1)))))
        return out

    # ---- loop invariants -------------------------------------------------
    def idx_t_facts(V, Vo):
        tn, sh_old = unwrap(Vo, 'shell_t')
        _, sh = unwrap(V, 'shell_t')
        idx_t = V('idx_t')
        out = []
        if sh is None:
            out.append(('idx_t_empty', idx_t.n == 0))
            return out
        a, c = A.qi('a'), A.qi('c')
        out.append(('idx_t_empty_without_transfer', z3.Implies(tn,
                                                               idx_t.n == 0)))
        out.append(('idx_t_valid', z3.ForAll([a], z3.Implies(
            z3.And(a >= 0, a < idx_t.n), z3.And(
                idx_t.at(a) >= 0, idx_t.at(a) < sh_old.n,
                sh_old.at(idx_t.at(a)) >= 0,
                sh.at(idx_t.at(a)) == -1)))))
        out.append(('idx_t_distinct', z3.ForAll([a, c], z3.Implies(
            z3.And(a >= 0, a < c, c < idx_t.n), idx_t.at(a) != idx_t.at(c)))))
        out.append(('shell_t_frame', z3.And(sh.n == sh_old.n, A.forall_idx(
            sh_old.n, lambda i: z3.Or(sh.at(i) == sh_old.at(i),
                                      sh.at(i) == -1)))))
        return out

    def prepare0(ex, st):
        v = st.env.get('points_all')
        if isinstance(v, Ref) and isinstance(st.cell(v), PyList) and \
                not st.cell(v).items:
            st.set_cell(v, FlatList(0, A.const_arr(0, None, 'Pt') if False
                                    else Arr(0, lambda i: z3.Const(
                                        'nopt', M.Pt), 'Pt')))

    def inv0(V):
        Vo = View(V.ex, G['old'])
        b = S(Vo, 'bounds')
        idx = norm(Vo.int('index'), b.n)
        nbt = V.int('self.n_batch')
        ns = V.int('n_sample')
        nbd = V.int('n_bound')
        pa = V('points_all')
        idx_t = V('idx_t')
        out = [('n_sample_range', z3.And(ns >= 0, ns <= nbt)),
               ('accumulated_len', z3.And(pa.flat.n == ns, pa.cnt >= 0,
                                          z3.Implies(ns > 0, pa.cnt >= 1))),
               ('accumulated_rows_in_shell', A.forall_idx(
                   pa.flat.n, lambda j: M.good_row(b, idx, pa.flat.at(j)))),
               ('n_bound_counts', z3.And(nbd >= ns + idx_t.n, z3.Implies(
                   idx == b.n - 1, nbd == ns + idx_t.n))),
               # every proposal drawn from the bound is counted, also those of
               # a draw that is rejected completely
               ('n_bound_is_the_number_of_proposals_drawn',
                nbd == M.proposals(V.st) - M.proposals(Vo.st))]
        bb = z3.Const('b!q', M.Bound)
        out.append(('only_this_bound_is_sampled', z3.ForAll(
            [bb], z3.Implies(bb != b.at(idx), z3.And(
                z3.Select(M.sstate(V.st), bb) ==
                z3.Select(M.sstate(Vo.st), bb),
                z3.Select(M.statfresh(V.st), bb) ==
                z3.Select(M.statfresh(Vo.st), bb))))))
        return out + idx_t_facts(V, Vo)

    def inv1(V):
        Vo = View(V.ex, G['old'])
        b = S(Vo, 'bounds')
        idx = norm(Vo.int('index'), b.n)
        p = V('points')
        m = V('in_shell')
        kk = V.k(1)
        j, k = A.qi('j'), A.qi('k')
        return [('in_shell_len', m.n == p.n),
                ('in_shell_excludes_later_bounds', z3.ForAll([j, k], z3.Implies(
                    z3.And(j >= 0, j < p.n, m.at(j), k > idx, k < idx + 1 + kk),
                    z3.Not(C(b.at(k), p.at(j)))))),
                ('in_shell_all_true_initially', z3.Implies(
                    kk == 0, A.forall_idx(m.n, lambda j: m.at(j))))]

    def prepare2(ex, st):
        st.ghost['idx_t_n_before_transfer'] = ex.deref(
            st, st.env['idx_t']).n

    def inv2(V):
        Vo = View(V.ex, G['old'])
        p = V('points')
        rep = V('replace')
        shp = V('shell_p')
        idx_t = V('idx_t')
        kk = V.k(2)
        n0 = V.ghost('idx_t_n_before_transfer')
        cnt = A.count(V.st, rep)
        return [('replace_len', z3.And(rep.n == p.n, shp.n == p.n)),
                ('replace_only_lower_shells', A.forall_idx(
                    rep.n, lambda j: z3.Implies(rep.at(j), z3.And(
                        shp.at(j) >= 0, shp.at(j) < kk)))),
                ('replace_count', z3.And(idx_t.n == n0 + cnt, idx_t.n >= n0)),
                ] + idx_t_facts(V, Vo)

    c = FnContract(
        SQ + 'sample_shell', params=['index', 'shell_t'],
        defaults=dict(shell_t=None), pre=pre, post=post, result=result,
        mod_ghost=['sstate', 'rng', 'statfresh', 'proposals'],
        mod_args=['shell_t'],
        loops={0: LoopSpec(inv=inv0, prepare=prepare0,
                           extra_mods=['$statfresh', '$proposals']),
               1: LoopSpec(inv=inv1),
               2: LoopSpec(inv=inv2, prepare=prepare2)})
    return c


# ---------------------------------------------------------------------------
# small helpers shared by the remaining contracts

SHELL_ARRAYS = ['shell_n', 'shell_n_sample', 'shell_n_eff', 'shell_log_l_min',
                'shell_log_l', 'shell_log_v']


def snapshotting(contract, G):
    """wrap contract.pre so that the entry state is recorded in G['old'] when
    the function body is verified (used by loop invariants for old(...))"""
    orig = contract.pre

    def pre(V):
        out = orig(V)
        snap = V.st.copy()
        snap.env = dict(V.st.env)
        G['old'] = snap
        return out
    contract.pre_verify = pre
    return contract


def same_arr(a, b):
    return A.arr_eq(a, b)


def unchanged_except(new, old, idx):
    return z3.And(new.n == old.n, A.forall_idx(
        old.n, lambda i: z3.Implies(i != idx, new.at(i) == old.at(i))))


# ---------------------------------------------------------------------------
# pure accessors / helpers that Sampler methods call (assumed here; their own
# purity is proved in C11, their values in C02)

def pure_contract(name, params=(), defaults=None, result=None, pre=None):
    return FnContract(SQ + name, params=params, defaults=defaults or {},
                      result=result or (lambda ex, st, V: None), pre=pre)


def getter_real(name):
    return pure_contract(name, result=lambda ex, st, V: fresh('real', name))


def n_eff_of(V):
    """n_eff is a deterministic function of the three per-shell arrays it
    reads (its body is verified in C02)"""
    from pyvc.lib import tuple_fn
    return tuple_fn(V.st, 'n_eff', [S(V, 'shell_n_eff'), S(V, 'shell_log_l'),
                                    S(V, 'shell_log_v')])


def n_eff_contract():
    return pure_contract('n_eff', result=lambda ex, st, V: Sym(n_eff_of(V),
                                                              'real'))


def success_of(V, n_shell, n_eff):
    sn = S(V, 'shell_n')
    mask = Arr(sn.n, lambda i: sn.at(i) >= n_shell, 'bool')
    return z3.And(V.bool('self.explored'), A.count(V.st, mask) == sn.n,
                  n_eff_of(V) >= n_eff)


def f_live_contract():
    def result(ex, st, V):
        # None once explored, a real number before
        return MaybeNone(V.bool('self.explored'), fresh('real', 'f_live'))
    return pure_contract('f_live', result=result)


def print_status_contract():
    return pure_contract('print_status', params=['status', 'header', 'end'],
                         defaults=dict(status='', header=False, end='\n'))


def write_contract():
    return pure_contract('write', params=['filepath', 'overwrite'],
                         defaults=dict(overwrite=False))


def write_shell_update_contract():
    return pure_contract('write_shell_update', params=['filepath', 'shell'])


def compute_bound_contracts(reg):
    """constructors of bounds: return a fresh bound object"""
    def fresh_bound(ex, st, V, nb_class):
        b = fresh('Bound', 'new_bound')
        st.assume(M.isNB(b.t) == nb_class)
        # object allocation: a new object is younger than every existing one
        clock = M.clock(st)
        st.assume(M.born(b.t) == clock)
        st.ghost['clock'] = clock + 1
        return b

    def uc_result(ex, st, V):
        return fresh_bound(ex, st, V, False)

    def nb_result(ex, st, V):
        ex.reg.havoc_ghost(ex, st, 'rng')
        return fresh_bound(ex, st, V, True)
    reg.add_contract(FnContract(
        'nautilus.bounds.basic.UnitCube.compute', params=['n_dim', 'rng'],
        defaults=dict(rng=None), result=uc_result))
    reg.add_contract(FnContract(
        'nautilus.bounds.nautilus.NautilusBound.compute',
        params=['points', 'log_l', 'log_l_min', 'log_v_target',
                'enlarge_per_dim', 'n_points_min', 'split_threshold',
                'periodic', 'n_networks', 'neural_network_kwargs', 'pool',
                'rng'],
        defaults=dict(enlarge_per_dim=1.1, n_points_min=None,
                      split_threshold=100, periodic=None, n_networks=4,
                      neural_network_kwargs=None, pool=None, rng=None),
        result=nb_result, mod_ghost=['rng', 'clock']))


# ---------------------------------------------------------------------------
# evaluate_likelihood (body verified in C03)

def evaluate_likelihood_contract():
    def pre(V):
        p = V('points')
        return [('points_in_cube', A.forall_idx(
            p.n, lambda j: incube(p.at(j)))),
            ('at_least_one_point', p.n >= 1)]

    def result(ex, st, V):
        p = V('points')
        ll = st.alloc(A.fresh_arr(st, 'real', 'log_l_new', n=p.n), 'log_l_new')
        bl = MaybeNone(z3.Not(M.HAS_BLOBS), st.alloc(
            A.fresh_arr(st, 'Blob', 'blobs_new', n=p.n), 'blobs_new'))
        return (ll, bl)

    def post(Vo, Vn, res):
        ex, st = Vn.ex, Vn.st
        p = Vo('points')
        ll = ex.deref(st, res[0])
        if isinstance(res[1], MaybeNone):
            bnone, bl = res[1].isnone, ex.deref(st, res[1].val)
        elif res[1] is None:
            bnone, bl = z3.BoolVal(True), None
        else:
            bnone, bl = z3.BoolVal(False), ex.deref(st, res[1])
        dt = Vn.raw('self.blobs_dtype')
        dtn = dt.isnone if isinstance(dt, MaybeNone) else z3.BoolVal(dt is None)
        out = [
            ('post_len', ll.n == p.n),
            ('post_values', A.forall_idx(p.n, lambda j: ll.at(j) ==
                                         L(p.at(j)))),
            ('post_blobs_iff_user_returns_blobs', bnone ==
             z3.Not(M.HAS_BLOBS)),
            ('post_n_like', Vn.int('self.n_like') ==
             Vo.int('self.n_like') + p.n),
            ('post_dtype_known', z3.Implies(M.HAS_BLOBS, z3.Not(dtn))),
            ('frame_points_unchanged', z3.BoolVal(
                Vn('points') is Vo('points'))),
        ]
        if bl is not None:
            out.append(('post_blob_shape', z3.Implies(z3.Not(bnone),
                                                      bl.n == p.n)))
            out.append(('post_blob_values', z3.Implies(
                z3.Not(bnone), A.forall_idx(
                    p.n, lambda j: bl.at(j) == Bl(p.at(j))))))
        return out
    def raises(Vo, Vn, exc):
        dt = Vo.raw('self.blobs_dtype')
        dtn = dt.isnone if isinstance(dt, MaybeNone) else z3.BoolVal(dt is None)
        return [('only_when_dtype_given_but_no_blobs', z3.And(
            z3.BoolVal(exc == 'ValueError'), z3.Not(M.HAS_BLOBS),
            z3.Not(dtn)))]
    return FnContract(SQ + 'evaluate_likelihood', params=['points'], pre=pre,
                      post=post, result=result, raises=raises,
                      mod_fields=['n_like', 'blobs_dtype'])


# ---------------------------------------------------------------------------
# update_shell_info

def update_shell_info_contract(with_S=False):
    def pre(V):
        b = S(V, 'bounds')
        idx = norm(V.int('index'), b.n)
        out = [('index_in_range', z3.And(idx >= 0, idx < b.n,
                                         V.int('index') >= -b.n))]
        out += M.inv_P1(V)
        out += M.inv_rows_aligned(V)
        out += M.inv_exp_arrays(V)
        return out

    def post(Vo, Vn, res):
        b = S(Vo, 'bounds')
        idx = norm(Vo.int('index'), b.n)
        out = []
        for nm in ('shell_n', 'shell_log_v', 'shell_log_l', 'shell_n_eff'):
            out.append(('frame_' + nm, unchanged_except(
                S(Vn, nm), S(Vo, nm), idx)))
        out += M.S1_at(Vn, idx)
        return out
    def result(ex, st, V):
        # ghost: the statistics of this shell are now up to date (the body is
        # proved to establish S1 for `index`)
        b = S(V, 'bounds')
        idx = norm(V.int('index'), b.n)
        st.ghost['statfresh'] = z3.Store(M.statfresh(st), b.at(idx),
                                         z3.BoolVal(True))
        return None
    return FnContract(SQ + 'update_shell_info', params=['index'], pre=pre,
                      post=post, result=result,
                      mod_fields=['shell_n', 'shell_log_v',
                                  'shell_log_l', 'shell_n_eff'],
                      loop_ghost=['statfresh'])


# ---------------------------------------------------------------------------
# add_bound

def total_len(L_, st=None):
    """sum of the lengths of a list of arrays (same uninterpreted sum as
    np.sum of an int array, so that np.sum(shell_n) can be related to it)"""
    from pyvc.lib import sum_term
    return sum_term(st, Arr(L_.n, L_.alen, 'int'))


def add_bound_contract(G):
    def pre(V):
        nb = S(V, 'bounds').n
        out = M.InvAllS(V)
        out.append(('exploring', z3.Not(V.bool('self.explored'))))
        out.append(('enough_points_for_live_set', z3.Implies(
            nb >= 1, total_len(S(V, 'log_l'), V.st) > V.int('self.n_live'))))
        return out

    def result(ex, st, V):
        return fresh('bool', 'added')

    def post(Vo, Vn, res):
        out = M.InvAllS(Vn)
        nbo, nbn = S(Vo, 'bounds').n, S(Vn, 'bounds').n
        out.append(('bound_count', nbn == z3.If(B(res), nbo + 1, nbo)))
        out.append(('first_bound_always_added', z3.Implies(nbo == 0, B(res))))
        out.append(('still_exploring', z3.Not(Vn.bool('self.explored'))))
        out.append(('n_like_unchanged',
                    Vn.int('self.n_like') == Vo.int('self.n_like')))
        return out

    def prepare0(ex, st):
        self_ = st.env['self']
        for (f, k) in (('shell_t', 'int'), ('points_t', 'Pt'),
                       ('log_l_t', 'real'), ('blobs_t', 'Blob')):
            v = st.getfield(self_, f)
            if isinstance(v, Ref) and isinstance(st.cell(v), PyList) and \
                    not st.cell(v).items:
                st.set_cell(v, FlatList(0, A.fresh_arr(st, k, f, n=0)))
        snap = st.copy()
        snap.env = dict(st.env)
        G['pre_loop'] = snap

    def inv0(V):
        b = S(V, 'bounds')
        nb = b.n
        kk = V.k(0)
        pts, ll = S(V, 'points'), S(V, 'log_l')
        i, j, k = A.qi('i'), A.qi('j'), A.qi('k')
        out = [('lists_aligned', z3.And(
            pts.n == nb, ll.n == nb,
            *[S(V, a).n == nb for a in SHELL_ARRAYS]))]
        out.append(('rows_in_own_bound', z3.ForAll([i, j], z3.Implies(
            z3.And(i >= 0, i < nb, j >= 0, j < pts.alen(i)),
            z3.And(incube(pts.at(i, j)), C(b.at(i), pts.at(i, j)))))))
        out.append(('rows_in_no_later_old_bound', z3.ForAll(
            [i, j, k], z3.Implies(
                z3.And(i >= 0, i < k, k < nb - 1, j >= 0, j < pts.alen(i)),
                z3.Not(C(b.at(k), pts.at(i, j)))))))
        out.append(('processed_rows_outside_new_bound', z3.ForAll(
            [i, j], z3.Implies(
                z3.And(i >= 0, i < kk, j >= 0, j < pts.alen(i)),
                z3.Not(C(b.at(nb - 1), pts.at(i, j)))))))
        out.append(('new_shell_empty', pts.alen(nb - 1) == 0))
        out.append(('rows_aligned', A.forall_idx(
            nb, lambda t: ll.alen(t) == pts.alen(t))))
        out.append(('shell_n_counts', A.forall_idx(nb, lambda t: z3.And(
            S(V, 'shell_n').at(t) == ll.alen(t),
            S(V, 'shell_n').at(t) <= S(V, 'shell_n_sample').at(t)))))
        bn, bl = blobs_of(V)
        if bl is not None:
            out.append(('blobs_aligned', z3.Implies(z3.Not(bn), z3.And(
                bl.n == nb, A.forall_idx(
                    nb, lambda t: bl.alen(t) == pts.alen(t))))))
        # transfer lists
        sh, pt, lt = S(V, 'shell_t'), S(V, 'points_t'), S(V, 'log_l_t')
        out.append(('transfer_lists_shape', z3.And(
            sh.cnt == kk, pt.cnt == kk, lt.cnt == kk,
            sh.flat.n == pt.flat.n, lt.flat.n == pt.flat.n)))
        btn, blt = blobs_of(V, 'blobs_t')
        if isinstance(blt, FlatList):
            out.append(('transfer_blobs_shape', z3.Implies(
                z3.Not(bn), z3.And(blt.cnt == kk,
                                   blt.flat.n == pt.flat.n))))
        f = pt.flat
        s_ = sh.flat
        # C03: stored values stay the likelihood / blob of their own row
        out.append(('A1_log_l_is_likelihood_of_point', z3.ForAll(
            [i, j], z3.Implies(
                z3.And(i >= 0, i < nb, j >= 0, j < pts.alen(i)),
                ll.at(i, j) == L(pts.at(i, j))))))
        if bl is not None:
            out.append(('A1_blob_is_blob_of_point', z3.Implies(
                z3.Not(bn), z3.ForAll([i, j], z3.Implies(
                    z3.And(i >= 0, i < nb, j >= 0, j < pts.alen(i)),
                    bl.at(i, j) == Bl(pts.at(i, j)))))))
        out.append(('A2_transfer_log_l_aligned', A.forall_idx(
            f.n, lambda t: lt.flat.at(t) == L(f.at(t)))))
        if isinstance(blt, FlatList):
            out.append(('A2_transfer_blobs_aligned', z3.Implies(
                z3.Not(bn), A.forall_idx(
                    f.n, lambda t: blt.flat.at(t) == Bl(f.at(t))))))
        fr = M.statfresh(V.st)
        out.append(('S_statistics_up_to_date', A.forall_idx(
            nb - 1, lambda t: z3.Or(z3.Select(fr, b.at(t)),
                                    M.never_sampled(V, t)))))
        out.append(('S_new_shell_never_sampled', M.never_sampled(V, nb - 1)))
        out.append(('transfer_candidates', z3.And(
            z3.ForAll([j], z3.Implies(
                z3.And(j >= 0, j < f.n),
                z3.And(incube(f.at(j)), C(b.at(nb - 1), f.at(j)),
                       s_.at(j) >= 0, s_.at(j) < kk,
                       C(b.at(s_.at(j)), f.at(j))))),
            z3.ForAll([j, k], z3.Implies(
                z3.And(j >= 0, j < f.n, k > s_.at(j), k < nb - 1),
                z3.Not(C(b.at(k), f.at(j))))))))
        return out

    return FnContract(
        SQ + 'add_bound', params=['verbose'], defaults=dict(verbose=False),
        pre=pre, post=post, result=result,
        mod_fields=['bounds', 'points', 'log_l', 'blobs', 'shell_t',
                    'points_t', 'log_l_t', 'blobs_t'] + SHELL_ARRAYS,
        mod_ghost=['rng', 'sstate', 'clock', 'statfresh'],
        loops={0: LoopSpec(inv=inv0, prepare=prepare0)})


# ---------------------------------------------------------------------------
# add_samples

def add_samples_contract():
    def pre(V):
        nb = S(V, 'bounds').n
        sh = V.int('shell')
        out = M.InvAllS(V)
        out.append(('shell_in_range', z3.And(sh >= -1, sh < nb, nb >= 1)))
        out.append(('last_shell_by_minus_one_only_while_exploring', z3.Implies(
            sh == -1, z3.Not(V.bool('self.explored')))))
        return out

    def result(ex, st, V):
        r = fresh('int', 'n_update')
        st.assume(r.t >= 0)
        return r

    def post(Vo, Vn, res):
        out = M.InvAllS(Vn)
        out.append(('one_batch_evaluated', Vn.int('self.n_like') ==
                    Vo.int('self.n_like') + Vo.int('self.n_batch')))
        out.append(('bounds_unchanged', A.arr_eq(
            Arr(S(Vn, 'bounds').n, S(Vn, 'bounds').fn, 'Bound'),
            Arr(S(Vo, 'bounds').n, S(Vo, 'bounds').fn, 'Bound'))))
        out.append(('explored_unchanged', Vn.bool('self.explored') ==
                    Vo.bool('self.explored')))
        out.append(('n_update_bounded', z3.And(
            I(res) >= 0, I(res) <= Vo.int('self.n_batch'))))
        po, pn = S(Vo, 'points'), S(Vn, 'points')
        lo_, ln_ = S(Vo, 'log_l'), S(Vn, 'log_l')
        nb = S(Vo, 'bounds').n
        sh = norm(Vo.int('shell'), nb)
        i, j = A.qi('i'), A.qi('j')
        out.append(('X_append_only', z3.And(
            z3.ForAll([i], z3.Implies(z3.And(i >= 0, i < nb), z3.And(
                pn.alen(i) >= po.alen(i),
                z3.Implies(i != sh, pn.alen(i) == po.alen(i))))),
            z3.ForAll([i, j], z3.Implies(
                z3.And(i >= 0, i < nb, j >= 0, j < po.alen(i)),
                z3.And(pn.at(i, j) == po.at(i, j),
                       ln_.at(i, j) == lo_.at(i, j)))))))
        out.append(('batch_stored_in_shell',
                    pn.alen(sh) >= po.alen(sh) + Vo.int('self.n_batch')))
        return out
    return FnContract(
        SQ + 'add_samples', params=['shell', 'verbose'],
        defaults=dict(verbose=False), pre=pre, post=post, result=result,
        mod_fields=['points', 'log_l', 'blobs', 'shell_t', 'n_like',
                    'blobs_dtype', 'shell_n_sample', 'shell_n', 'shell_log_v',
                    'shell_log_l', 'shell_n_eff'],
        mod_ghost=['rng', 'sstate', 'statfresh'])


# ---------------------------------------------------------------------------
# discard_exploration setter

def discard_setter_contract():
    def pre(V):
        out = M.inv_P1(V) + M.inv_rows_aligned(V) + M.inv_exp_arrays(V)
        return out

    def post(Vo, Vn, res):
        out = [('flag_set', Vn.bool('self._discard_exploration') ==
                B(Vo.raw('discard_exploration')))]
        for nm in ('shell_n', 'shell_log_v', 'shell_log_l', 'shell_n_eff'):
            out.append(('len_' + nm, S(Vn, nm).n == S(Vo, nm).n))
        out += M.inv_N(Vn)
        b = S(Vn, 'bounds')
        fr = M.statfresh(Vn.st)
        out.append(('S_every_shell_recomputed', A.forall_idx(
            b.n, lambda t: z3.Select(fr, b.at(t)))))
        return out

    def raises(Vo, Vn, exc):
        return [('only_value_error', z3.BoolVal(exc == 'ValueError')),
                ('state_unchanged_on_reject', z3.BoolVal(True))]

    def inv0(V):
        nb = S(V, 'bounds').n
        kk = V.k(0)
        out = []
        for nm in ('shell_n', 'shell_log_v', 'shell_log_l', 'shell_n_eff'):
            out.append(('len_' + nm, S(V, nm).n == nb))
        i = A.qi('i')

        def body(i):
            start, ns, ll = M.shell_view(V, i)
            return S(V, 'shell_n').at(i) == ll.n
        out.append(('updated_prefix', z3.ForAll([i], z3.Implies(
            z3.And(i >= 0, i < kk), body(i)))))
        b = S(V, 'bounds')
        fr = M.statfresh(V.st)
        out.append(('S_prefix_recomputed', A.forall_idx(
            kk, lambda t: z3.Select(fr, b.at(t)))))
        return out
    return FnContract(
        SQ + 'discard_exploration.setter', params=['discard_exploration'],
        pre=pre, post=post, raises=raises,
        mod_fields=['_discard_exploration', 'shell_n', 'shell_log_v',
                    'shell_log_l', 'shell_n_eff'], mod_ghost=['statfresh'],
        loops={0: LoopSpec(inv=inv0)})


# ---------------------------------------------------------------------------
# run

def run_contract(G):
    PARAMS = ['f_live', 'n_shell', 'n_eff', 'n_like_max',
              'discard_exploration', 'timeout', 'verbose']

    def pre(V):
        return M.InvRun(V) + M.inv_S(V)

    def result(ex, st, V):
        return fresh('bool', 'success')

    def params(V):
        from pyvc.arrays import zv
        return (I(V.raw('n_shell')), zv(V.raw('n_eff'), 'real'),
                zv(V.raw('n_like_max'), 'real'))

    def post(Vo, Vn, res):
        out = M.InvRun(Vn) + M.inv_S(Vn)
        n_shell, n_eff, n_max = params(Vo)
        nl_o, nl_n = Vo.int('self.n_like'), Vn.int('self.n_like')
        nbt = Vo.int('self.n_batch')
        out.append(('N_budget', z3.And(
            z3.Implies(z3.ToReal(nl_o) < n_max,
                       z3.ToReal(nl_n) < n_max + z3.ToReal(nbt)),
            z3.Implies(z3.ToReal(nl_o) >= n_max, nl_n == nl_o),
            nl_n >= nl_o)))
        out.append(('N_return_value', B(res) == success_of(Vn, n_shell,
                                                           n_eff)))
        out.append(('X_explored_monotone', z3.Implies(
            Vo.bool('self.explored'), Vn.bool('self.explored'))))
        return out

    def inv0(V):
        Vo = View(V.ex, c.entry_state)
        n_shell, n_eff, n_max = params(Vo)
        nl_o, nl = Vo.int('self.n_like'), V.int('self.n_like')
        nbt = V.int('self.n_batch')
        return M.InvRun(V) + M.inv_S(V) + [
            ('has_first_bound', S(V, 'bounds').n >= 1),
            ('N_budget', z3.And(nl >= nl_o, z3.Or(
                nl == nl_o, z3.ToReal(nl) < n_max + z3.ToReal(nbt)),
                z3.Implies(z3.ToReal(nl_o) >= n_max, nl == nl_o))),
            ('N_success_is_predicate_of_state',
             V.bool('success') == success_of(V, n_shell, n_eff)),
            ('X_explored_monotone', z3.Implies(Vo.bool('self.explored'),
                                               V.bool('self.explored')))]

    def step0(Vs, Ve):
        """one iteration of the run loop"""
        Vo = View(Vs.ex, c.entry_state)
        n_shell, n_eff, n_max = params(Vo)
        out = [('N_one_batch_per_iteration', Ve.int('self.n_like') ==
                Vs.int('self.n_like') + Vs.int('self.n_batch')),
               ('N_guard_held', z3.ToReal(Vs.int('self.n_like')) < n_max)]
        ex_s = Vs.bool('self.explored')
        bo, bn = S(Vs, 'bounds'), S(Ve, 'bounds')
        po, pn = S(Vs, 'points'), S(Ve, 'points')
        lo_, ln_ = S(Vs, 'log_l'), S(Ve, 'log_l')
        i, j = A.qi('i'), A.qi('j')
        out.append(('X_no_return_to_exploration', z3.Implies(
            ex_s, Ve.bool('self.explored'))))
        out.append(('X_bounds_frozen', z3.Implies(ex_s, z3.And(
            bn.n == bo.n, A.forall_idx(bo.n, lambda t: bn.at(t) == bo.at(t))))))
        out.append(('X_append_only', z3.Implies(ex_s, z3.And(
            z3.ForAll([i], z3.Implies(z3.And(i >= 0, i < bo.n),
                                      pn.alen(i) >= po.alen(i))),
            z3.ForAll([i, j], z3.Implies(
                z3.And(i >= 0, i < bo.n, j >= 0, j < po.alen(i)),
                z3.And(pn.at(i, j) == po.at(i, j),
                       ln_.at(i, j) == lo_.at(i, j))))))))
        out.append(('X_exploration_snapshot_frozen', z3.Implies(ex_s, z3.And(
            A.arr_eq(S(Ve, 'shell_end_exp'), S(Vs, 'shell_end_exp')),
            A.arr_eq(S(Ve, 'shell_n_sample_exp'),
                     S(Vs, 'shell_n_sample_exp'))))))
        return out

    def prepare1(ex, st):
        snap = st.copy()
        snap.env = dict(st.env)
        G['rm_entry'] = snap

    def inv1(V):
        """removal of empty shells, highest index first"""
        E = View(V.ex, G['rm_entry'])
        kk = V.k(1)
        Esn = S(E, 'shell_n')
        mask = Arr(Esn.n, lambda i: Esn.at(i) == 0, 'bool')
        c, sel, rank = A.sel_of(V.st, mask)
        b = S(V, 'bounds')
        nb = b.n
        pts, ll = S(V, 'points'), S(V, 'log_l')
        Eb, Ep, El = S(E, 'bounds'), S(E, 'points'), S(E, 'log_l')
        lo = z3.If(kk == 0, Eb.n, sel(c - kk))
        i, j, k = A.qi('i'), A.qi('j'), A.qi('k')
        out = [('sizes', z3.And(
            nb == Eb.n - kk, pts.n == nb, ll.n == nb, kk <= c, lo <= nb,
            z3.Or(kk == 0, lo + 1 <= nb),
            *[S(V, a).n == nb for a in SHELL_ARRAYS]))]
        out.append(('prefix_unchanged', z3.ForAll([i], z3.Implies(
            z3.And(i >= 0, i < lo), z3.And(
                b.at(i) == Eb.at(i), pts.alen(i) == Ep.alen(i),
                ll.alen(i) == El.alen(i),
                *[S(V, a).at(i) == S(E, a).at(i) for a in SHELL_ARRAYS])))))
        out.append(('prefix_points_unchanged', z3.ForAll([i, j], z3.Implies(
            z3.And(i >= 0, i < lo, j >= 0, j < Ep.alen(i)),
            pts.at(i, j) == Ep.at(i, j)))))
        out.append(('suffix_nonempty', z3.ForAll([i], z3.Implies(
            z3.And(i >= lo, i < nb), S(V, 'shell_n').at(i) != 0))))
        out += M.inv_P2(V) + M.inv_rows_aligned(V) + M.inv_bounds(V)
        out += [x for x in M.inv_A(V) if x[0].startswith('A1')]
        out.append(('shell_n_counts', A.forall_idx(nb, lambda t: z3.And(
            S(V, 'shell_n').at(t) == ll.alen(t),
            S(V, 'shell_n').at(t) <= S(V, 'shell_n_sample').at(t)))))
        bn, bl = blobs_of(V)
        if bl is not None:
            out.append(('blobs_aligned', z3.Implies(z3.Not(bn), z3.And(
                bl.n == nb, A.forall_idx(
                    nb, lambda t: bl.alen(t) == pts.alen(t))))))
        return out

    c = FnContract(
        SQ + 'run', params=PARAMS,
        defaults=dict(f_live=0.01, n_shell=1, n_eff=10000, n_like_max=None,
                      discard_exploration=False, timeout=None, verbose=False),
        pre=pre, post=post, result=result,
        mod_fields=['bounds', 'points', 'log_l', 'blobs', 'shell_t',
                    'points_t', 'log_l_t', 'blobs_t', 'n_like', 'blobs_dtype',
                    'explored', '_discard_exploration', 'shell_n_sample_exp',
                    'shell_end_exp', 'n_update_iter', 'n_like_iter'] +
        SHELL_ARRAYS, mod_ghost=['rng', 'sstate', 'clock', 'statfresh'],
        loops={0: LoopSpec(inv=inv0, step=step0, extra_mods=[
            ('self', '_discard_exploration'), ('self', 'shell_n'),
            ('self', 'shell_log_v'), ('self', 'shell_log_l'),
            ('self', 'shell_n_eff'), '$clock', '$statfresh']),
            1: LoopSpec(inv=inv1, prepare=prepare1)})
    return c
