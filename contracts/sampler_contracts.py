"""Contracts of the Sampler methods (callee side = caller side)."""
import z3

from pyvc.core import (State, Sym, Arr, LArr, SList, PyList, FlatList, ObjRec,
                       Ref, Opaque, fresh, fresh_fn, uid, I, B, OutsideSubset)
from pyvc import arrays as A
from pyvc.npmodel import MaybeNone
from pyvc.registry import FnContract
from pyvc.symexec import LoopSpec, View
from . import sampler_model as M
from .sampler_model import S, C, incube, L, Bl, SQ, blobs_of


def norm(idx, n):
    return z3.If(idx < 0, idx + n, idx)


def unwrap(V, name):
    """value of a parameter that may be a MaybeNone: (isnone, derefed value)"""
    v = V.raw(name)
    if isinstance(v, MaybeNone):
        return v.isnone, V.ex.deref(V.st, v.val)
    if v is None:
        return z3.BoolVal(True), None
    return z3.BoolVal(False), V.ex.deref(V.st, v)


# ---------------------------------------------------------------------------
# shell_association

def shell_association_contract():
    def pre(V):
        b = S(V, 'bounds')
        nm = V.raw('n_max')
        out = []
        if nm is not None:
            out.append(('n_max_in_range', z3.And(I(nm) >= 0, I(nm) <= b.n)))
        return out

    def result(ex, st, V):
        p = V('points')
        return st.alloc(A.fresh_arr(st, 'int', 'shell_assoc', n=p.n), 'assoc')

    def post(Vo, Vn, res):
        b = S(Vo, 'bounds')
        p = Vo('points')
        nm = Vo.raw('n_max')
        n_max = b.n if nm is None else I(nm)
        r = Vn.ex.deref(Vn.st, res)
        j, k = A.qi('j'), A.qi('k')
        return [
            ('len', r.n == p.n),
            ('last_containing', z3.ForAll([j], z3.Implies(
                z3.And(j >= 0, j < p.n),
                z3.And(r.at(j) >= -1, r.at(j) < n_max, z3.Implies(
                    r.at(j) >= 0, C(b.at(r.at(j)), p.at(j))))))),
            ('none_later', z3.ForAll([j, k], z3.Implies(
                z3.And(j >= 0, j < p.n, k > r.at(j), k < n_max, k >= 0),
                z3.Not(C(b.at(k), p.at(j)))))),
        ]

    def inv0(V):
        # loop: for i, bound in reversed(list(enumerate(self.bounds[:n_max])))
        b = S(V, 'bounds')
        p = V('points')
        nm = V.raw('n_max')
        n_max = I(nm)
        sh = V('shell')
        kk = V.k(0)            # iterations done; next bound index n_max-1-kk
        j, k = A.qi('j'), A.qi('k')
        return [
            ('len', sh.n == p.n),
            ('assigned_are_last_containing', z3.ForAll([j], z3.Implies(
                z3.And(j >= 0, j < p.n),
                z3.And(sh.at(j) >= -1, sh.at(j) < n_max,
                       z3.Implies(sh.at(j) >= 0, z3.And(
                           sh.at(j) >= n_max - kk,
                           C(b.at(sh.at(j)), p.at(j)))))))),
            ('none_later', z3.ForAll([j, k], z3.Implies(
                z3.And(j >= 0, j < p.n, k > sh.at(j), k >= n_max - kk,
                       k < n_max, k >= 0),
                z3.Not(C(b.at(k), p.at(j)))))),
        ]

    return FnContract(SQ + 'shell_association', params=['points', 'n_max'],
                      defaults=dict(n_max=None), pre=pre, post=post,
                      result=result, loops={0: LoopSpec(inv=inv0)})


# ---------------------------------------------------------------------------
# sample_shell

def sample_shell_contract(G):
    """G: dict that receives the entry snapshot ('old') during verification."""

    def pre(V):
        b = S(V, 'bounds')
        idx = norm(V.int('index'), b.n)
        tn, sh = unwrap(V, 'shell_t')
        out = [('index_in_range', z3.And(idx >= 0, idx < b.n,
                                         V.int('index') >= -b.n)),
               ('n_batch_positive', V.int('self.n_batch') >= 1),
               ('transfer_only_for_last_shell',
                z3.Or(tn, idx == b.n - 1))]
        if sh is not None:
            out.append(('shell_t_is_the_samplers', z3.Implies(
                z3.Not(tn), z3.BoolVal(
                    isinstance(V.raw('shell_t'), (Ref, MaybeNone)) and
                    (V.raw('shell_t').val if isinstance(
                        V.raw('shell_t'), MaybeNone) else V.raw('shell_t')) ==
                    V.raw('self.shell_t')))))
            out.append(('transfer_candidates_consistent', z3.Implies(
                z3.Not(tn), M.p3_facts(b, S(V, 'points_t'), sh))))
        return out

    def result(ex, st, V):
        tn, sh = unwrap(V, 'shell_t')
        pts = st.alloc(A.fresh_arr(st, 'Pt', 'batch'), 'batch')
        nbd = fresh('int', 'n_bound')
        if sh is None:
            return (pts, nbd)
        idx_t = st.alloc(A.fresh_arr(st, 'int', 'idx_t'), 'idx_t')
        # shape of the result depends on shell_t being None
        if V.ex.decide(V.st, tn):
            return (pts, nbd)
        return (pts, nbd, idx_t)

    def post(Vo, Vn, res):
        ex, st = Vn.ex, Vn.st
        b = S(Vo, 'bounds')
        idx = norm(Vo.int('index'), b.n)
        tn, sh_old = unwrap(Vo, 'shell_t')
        _, sh_new = unwrap(Vn, 'shell_t')
        res = ex.deref(st, res) if isinstance(res, Ref) else res
        if not isinstance(res, tuple):
            return [('result_is_tuple', z3.BoolVal(False))]
        pts = ex.deref(st, res[0])
        nbd = I(res[1])
        out = [('post_len', pts.n == Vo.int('self.n_batch')),
               ('post_in_shell', A.forall_idx(
                   pts.n, lambda j: M.good_row(b, idx, pts.at(j))))]
        if len(res) == 2:
            out.append(('result_arity', tn))
            out.append(('post_n_bound', nbd >= pts.n))
            out.append(('post_n_bound_last', z3.Implies(
                idx == b.n - 1, nbd == pts.n)))
            return out
        idx_t = ex.deref(st, res[2])
        out.append(('result_arity', z3.Not(tn)))
        out.append(('post_n_bound', nbd >= pts.n + idx_t.n))
        out.append(('post_n_bound_last', z3.Implies(
            idx == b.n - 1, nbd == pts.n + idx_t.n)))
        a, c = A.qi('a'), A.qi('c')
        out.append(('post_idx_t', z3.And(
            z3.ForAll([a], z3.Implies(z3.And(a >= 0, a < idx_t.n), z3.And(
                idx_t.at(a) >= 0, idx_t.at(a) < sh_old.n,
                sh_old.at(idx_t.at(a)) >= 0,
                sh_new.at(idx_t.at(a)) == -1))),
            z3.ForAll([a, c], z3.Implies(
                z3.And(a >= 0, a < c, c < idx_t.n),
                idx_t.at(a) != idx_t.at(c))))))
        out.append(('post_shell_t_frame', z3.And(
            sh_new.n == sh_old.n, A.forall_idx(
                sh_old.n, lambda i: z3.Or(sh_new.at(i) == sh_old.at(i),
                                          sh_new.at(i) == -1)))))
        return out

    # ---- loop invariants -------------------------------------------------
    def idx_t_facts(V, Vo):
        tn, sh_old = unwrap(Vo, 'shell_t')
        _, sh = unwrap(V, 'shell_t')
        idx_t = V('idx_t')
        out = []
        if sh is None:
            out.append(('idx_t_empty', idx_t.n == 0))
            return out
        a, c = A.qi('a'), A.qi('c')
        out.append(('idx_t_empty_without_transfer', z3.Implies(tn,
                                                               idx_t.n == 0)))
        out.append(('idx_t_valid', z3.ForAll([a], z3.Implies(
            z3.And(a >= 0, a < idx_t.n), z3.And(
                idx_t.at(a) >= 0, idx_t.at(a) < sh_old.n,
                sh_old.at(idx_t.at(a)) >= 0,
                sh.at(idx_t.at(a)) == -1)))))
        out.append(('idx_t_distinct', z3.ForAll([a, c], z3.Implies(
            z3.And(a >= 0, a < c, c < idx_t.n), idx_t.at(a) != idx_t.at(c)))))
        out.append(('shell_t_frame', z3.And(sh.n == sh_old.n, A.forall_idx(
            sh_old.n, lambda i: z3.Or(sh.at(i) == sh_old.at(i),
                                      sh.at(i) == -1)))))
        return out

    def prepare0(ex, st):
        v = st.env.get('points_all')
        if isinstance(v, Ref) and isinstance(st.cell(v), PyList) and \
                not st.cell(v).items:
            st.set_cell(v, FlatList(0, A.const_arr(0, None, 'Pt') if False
                                    else Arr(0, lambda i: z3.Const(
                                        'nopt', M.Pt), 'Pt')))

    def inv0(V):
        Vo = View(V.ex, G['old'])
        b = S(Vo, 'bounds')
        idx = norm(Vo.int('index'), b.n)
        nbt = V.int('self.n_batch')
        ns = V.int('n_sample')
        nbd = V.int('n_bound')
        pa = V('points_all')
        idx_t = V('idx_t')
        out = [('n_sample_range', z3.And(ns >= 0, ns <= nbt)),
               ('accumulated_len', z3.And(pa.flat.n == ns, pa.cnt >= 0,
                                          z3.Implies(ns > 0, pa.cnt >= 1))),
               ('accumulated_rows_in_shell', A.forall_idx(
                   pa.flat.n, lambda j: M.good_row(b, idx, pa.flat.at(j)))),
               ('n_bound_counts', z3.And(nbd >= ns + idx_t.n, z3.Implies(
                   idx == b.n - 1, nbd == ns + idx_t.n)))]
        return out + idx_t_facts(V, Vo)

    def inv1(V):
        Vo = View(V.ex, G['old'])
        b = S(Vo, 'bounds')
        idx = norm(Vo.int('index'), b.n)
        p = V('points')
        m = V('in_shell')
        kk = V.k(1)
        j, k = A.qi('j'), A.qi('k')
        return [('in_shell_len', m.n == p.n),
                ('in_shell_excludes_later_bounds', z3.ForAll([j, k], z3.Implies(
                    z3.And(j >= 0, j < p.n, m.at(j), k > idx, k < idx + 1 + kk),
                    z3.Not(C(b.at(k), p.at(j)))))),
                ('in_shell_all_true_initially', z3.Implies(
                    kk == 0, A.forall_idx(m.n, lambda j: m.at(j))))]

    def prepare2(ex, st):
        st.ghost['idx_t_n_before_transfer'] = ex.deref(
            st, st.env['idx_t']).n

    def inv2(V):
        Vo = View(V.ex, G['old'])
        p = V('points')
        rep = V('replace')
        shp = V('shell_p')
        idx_t = V('idx_t')
        kk = V.k(2)
        n0 = V.ghost('idx_t_n_before_transfer')
        cnt = A.count(V.st, rep)
        return [('replace_len', z3.And(rep.n == p.n, shp.n == p.n)),
                ('replace_only_lower_shells', A.forall_idx(
                    rep.n, lambda j: z3.Implies(rep.at(j), z3.And(
                        shp.at(j) >= 0, shp.at(j) < kk)))),
                ('replace_count', z3.And(idx_t.n == n0 + cnt, idx_t.n >= n0)),
                ] + idx_t_facts(V, Vo)

    c = FnContract(
        SQ + 'sample_shell', params=['index', 'shell_t'],
        defaults=dict(shell_t=None), pre=pre, post=post, result=result,
        mod_ghost=['sstate', 'rng'], mod_args=['shell_t'],
        loops={0: LoopSpec(inv=inv0, prepare=prepare0),
               1: LoopSpec(inv=inv1),
               2: LoopSpec(inv=inv2, prepare=prepare2)})
    return c
