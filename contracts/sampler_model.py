"""Symbolic model of a Sampler object, the abstract Bound API it is verified
against, and the invariants of C01/C02/C03/C10/C12 (DESIGN.md section 7).

`Sampler` is verified against an *abstract* bound: an element of the
uninterpreted sort Bound with membership predicate C(b, p) that does not depend
on the bound's sampling state. That UnitCube / NautilusBound implement this API
is the subject of C07.
"""
import z3

from pyvc.core import (State, Sym, Arr, Arr2, LArr, SList, PyList, FlatList,
                       ObjRec, Ref, Opaque, ClassVal, fresh, fresh_fn, uid, I,
                       B, sort_of, OutsideSubset)
from pyvc import arrays as A
from pyvc.npmodel import MaybeNone, NEG_INF, NAN, f_log, f_exp, f_lse, as_lambda
from pyvc.registry import FnContract
from pyvc.symexec import LoopSpec, View

Pt = sort_of('Pt')
Bound = sort_of('Bound')
Blob = sort_of('Blob')

C = z3.Function('C', Bound, Pt, z3.BoolSort())          # geometric membership
incube = z3.Function('incube', Pt, z3.BoolSort())       # unit hypercube
L = z3.Function('L', Pt, z3.RealSort())                 # user log-likelihood
Bl = z3.Function('Bl', Pt, Blob)                        # user blob
LV = z3.Function('LV', Bound, z3.IntSort(), z3.RealSort())  # reported log_v
isNB = z3.Function('isNautilusBound', Bound, z3.BoolSort())
EID = z3.Function('eval_id', Pt, z3.IntSort())          # ghost evaluation id

SQ = 'nautilus.sampler.Sampler.'


born = z3.Function('born', Bound, z3.IntSort())   # ghost allocation time


def clock(st):
    if 'clock' not in st.ghost:
        st.ghost['clock'] = z3.Int(uid('clock'))
    return st.ghost['clock']


def sstate(st):
    if 'sstate' not in st.ghost:
        st.ghost['sstate'] = z3.Array(uid('sstate'), Bound, z3.IntSort())
    return st.ghost['sstate']


def havoc_sstate(ex, st):
    st.ghost['sstate'] = z3.Array(uid('sstate'), Bound, z3.IntSort())


def havoc_clock(ex, st):
    # the allocation clock only moves forward
    old = clock(st)
    st.ghost['clock'] = z3.Int(uid('clock'))
    st.assume(st.ghost['clock'] >= old)


def make_sampler(ex, st, explored=None):
    """Arbitrary Sampler object (all run-state fields symbolic)."""
    def arr(k, name, n=None):
        return st.alloc(A.fresh_arr(st, k, name, n=n), name)

    def mint(name, lo=None):
        v = fresh('int', name)
        if lo is not None:
            st.assume(v.t >= lo)
        return v
    nb = z3.Int(uid('nb'))
    st.assume(nb >= 0)
    f = {}
    f['n_dim'] = mint('n_dim', 2)
    f['n_live'] = mint('n_live', 1)
    f['n_update'] = mint('n_update')
    f['n_like_new_bound'] = mint('n_like_new_bound')
    f['n_batch'] = mint('n_batch')
    f['n_points_min'] = mint('n_points_min')
    f['n_networks'] = mint('n_networks', 0)
    f['enlarge_per_dim'] = fresh('real', 'enlarge_per_dim')
    f['split_threshold'] = fresh('real', 'split_threshold')
    f['periodic'] = Opaque('periodic')
    f['neural_network_kwargs'] = Opaque('dict')
    f['vectorized'] = fresh('bool', 'vectorized')
    f['pass_dict'] = fresh('bool', 'pass_dict')
    f['prior'] = Opaque('prior')
    f['likelihood'] = Opaque('likelihood')
    f['pool_l'] = MaybeNone(z3.Bool(uid('pool_l_none')), Opaque('pool'))
    f['pool_s'] = MaybeNone(z3.Bool(uid('pool_s_none')), Opaque('pool'))
    f['rng'] = Opaque('rng')
    f['n_like'] = mint('n_like', 0)
    f['explored'] = fresh('bool', 'explored') if explored is None else explored
    f['bounds'] = st.alloc(A.fresh_slist(st, 'Bound', 'bounds', n=nb), 'bounds')
    f['points'] = st.alloc(A.fresh_larr(st, 'Pt', 'points'), 'points')
    f['log_l'] = st.alloc(A.fresh_larr(st, 'real', 'log_l'), 'log_l')
    hb = z3.Bool(uid('blobs_none'))
    f['blobs'] = MaybeNone(hb, st.alloc(A.fresh_larr(st, 'Blob', 'blobs'),
                                        'blobs'))
    f['blobs_dtype'] = MaybeNone(z3.Bool(uid('blobs_dtype_none')),
                                 Opaque('dtype'))
    f['_discard_exploration'] = fresh('bool', 'discard')
    for nm in ('shell_n', 'shell_n_sample', 'shell_n_sample_exp',
               'shell_end_exp'):
        f[nm] = arr('int', nm)
    for nm in ('shell_n_eff', 'shell_log_l_min', 'shell_log_l', 'shell_log_v'):
        f[nm] = arr('real', nm)
    f['points_t'] = arr('Pt', 'points_t')
    f['shell_t'] = arr('int', 'shell_t')
    f['log_l_t'] = arr('real', 'log_l_t')
    f['blobs_t'] = MaybeNone(z3.Bool(uid('blobs_t_none')),
                             arr('Blob', 'blobs_t'))
    f['filepath'] = MaybeNone(z3.Bool(uid('filepath_none')), Opaque('path'))
    f['n_update_iter'] = mint('n_update_iter')
    f['n_like_iter'] = mint('n_like_iter')
    sstate(st)
    clock(st)
    statfresh(st)
    proposals(st)
    return st.alloc(ObjRec('Sampler', f), 'self')


# ---------------------------------------------------------------------------
# invariants (each returns a list of (name, z3 formula))

def S(V, name):
    return V('self.' + name)


def blobs_of(V, name='blobs'):
    """(isnone z3 bool, value) of a MaybeNone field"""
    v = V.raw('self.' + name)
    if isinstance(v, MaybeNone):
        return v.isnone, V.ex.deref(V.st, v.val)
    if v is None:
        return z3.BoolVal(True), None
    return z3.BoolVal(False), V.ex.deref(V.st, v)


def good_row(bounds, idx, p):
    """p is a legitimate member of shell idx: in the cube, in bound idx, in no
    later bound"""
    k = A.qi('k')
    return z3.And(incube(p), C(bounds.at(idx), p), z3.ForAll(
        [k], z3.Implies(z3.And(k > idx, k < bounds.n),
                        z3.Not(C(bounds.at(k), p)))))


def inv_P1(V):
    nb = S(V, 'bounds').n
    out = [('P1_lists_aligned', z3.And(
        S(V, 'points').n == nb, S(V, 'log_l').n == nb,
        S(V, 'shell_n').n == nb, S(V, 'shell_n_sample').n == nb,
        S(V, 'shell_n_eff').n == nb, S(V, 'shell_log_l_min').n == nb,
        S(V, 'shell_log_l').n == nb, S(V, 'shell_log_v').n == nb))]
    bn, bl = blobs_of(V)
    if bl is not None:
        out.append(('P1_blobs_aligned', z3.Implies(z3.Not(bn), bl.n == nb)))
    return out


def inv_P2(V):
    bounds, pts = S(V, 'bounds'), S(V, 'points')
    i, j, k = A.qi('i'), A.qi('j'), A.qi('k')
    return [
        ('P2_in_cube_and_own_bound', z3.ForAll([i, j], z3.Implies(
            z3.And(i >= 0, i < bounds.n, j >= 0, j < pts.alen(i)),
            z3.And(incube(pts.at(i, j)), C(bounds.at(i), pts.at(i, j)))))),
        ('P2_in_no_later_bound', z3.ForAll([i, j, k], z3.Implies(
            z3.And(i >= 0, i < k, k < bounds.n, j >= 0, j < pts.alen(i)),
            z3.Not(C(bounds.at(k), pts.at(i, j)))))),
    ]


def p3_facts(bounds, pt, sh):
    """transfer candidates (arrays pt, sh) are consistent with `bounds`"""
    nb = bounds.n
    j, k = A.qi('j'), A.qi('k')
    return z3.And(
        pt.n == sh.n,
        z3.ForAll([j], z3.Implies(
            z3.And(j >= 0, j < pt.n),
            z3.And(incube(pt.at(j)), C(bounds.at(nb - 1), pt.at(j)),
                   sh.at(j) >= -1, sh.at(j) < nb - 1,
                   z3.Implies(sh.at(j) >= 0,
                              C(bounds.at(sh.at(j)), pt.at(j)))))),
        z3.ForAll([j, k], z3.Implies(
            z3.And(j >= 0, j < pt.n, sh.at(j) >= 0, k > sh.at(j), k < nb - 1),
            z3.Not(C(bounds.at(k), pt.at(j))))))


def inv_P3(V):
    bounds = S(V, 'bounds')
    pt, sh, ll = S(V, 'points_t'), S(V, 'shell_t'), S(V, 'log_l_t')
    expl = V.bool('self.explored')
    return [('P3_transfer_candidates', z3.Implies(
        z3.Not(expl), z3.And(p3_facts(bounds, pt, sh), ll.n == pt.n,
                             z3.Implies(bounds.n <= 1, pt.n == 0))))]


def inv_bounds(V):
    """type invariant of the bound list: fresh objects, pairwise distinct;
    index 0 is the unit cube, the others NautilusBounds"""
    b = S(V, 'bounds')
    i, j = A.qi('i'), A.qi('j')
    ck = clock(V.st)
    return [('B_distinct', z3.And(
        z3.ForAll([i, j], z3.Implies(
            z3.And(i >= 0, i < j, j < b.n), born(b.at(i)) < born(b.at(j)))),
        A.forall_idx(b.n, lambda t: born(b.at(t)) < ck)))]


def InvP(V):
    return inv_P1(V) + inv_P2(V) + inv_P3(V) + inv_bounds(V)


# ---------------------------------------------------------------------------
# abstract Bound API (assumed here, proved for the concrete classes in C07)

def proposals(st):
    if 'proposals' not in st.ghost:
        st.ghost['proposals'] = z3.Int(uid('proposals0'))
    return st.ghost['proposals']


def havoc_proposals(ex, st):
    st.ghost['proposals'] = z3.Int(uid('proposals'))


def install_bound_api(reg, cx):
    cx.assume_tag('BoundAPI: bound.sample(n) returns n rows inside the unit '
                  'cube and inside the bound; bound.contains is a pure '
                  'function of the geometry (proved per class in C07)')

    def b_sample(ex, st, b, args, kwargs, node):
        n = args[0] if args else kwargs.get('n_points', 100)
        n_t = I(n)
        rp = kwargs.get('return_points', True)
        # sampling advances the bound's proposal state and the shared rng
        ss = sstate(st)
        st.ghost['sstate'] = z3.Store(ss, b.t, z3.Int(uid('ss')))
        invalidate(st, b.t)      # log_v of this bound may change
        ex.reg.havoc_ghost(ex, st, 'rng')
        if rp is False:
            return None
        # ghost: number of proposals handed out so far (every row returned by
        # bound.sample is one proposal, whatever happens to it afterwards)
        st.ghost['proposals'] = proposals(st) + n_t
        r = A.fresh_arr(st, 'Pt', 'sampled', n=n_t)
        st.assume(A.forall_idx(n_t, lambda j: z3.And(
            incube(r.at(j)), C(b.t, r.at(j)))))
        return st.alloc(r, 'sampled')

    def b_contains(ex, st, b, args, kwargs, node):
        p = ex.deref(st, args[0])
        if not isinstance(p, Arr) or p.k != 'Pt':
            raise OutsideSubset('contains on {!r}'.format(p), node)
        return st.alloc(Arr(p.n, lambda j: C(b.t, p.at(j)), 'bool'), 'inb')

    reg.sort_methods[('Bound', 'sample')] = b_sample
    reg.sort_methods[('Bound', 'contains')] = b_contains
    reg.method_effects.setdefault('sample', dict(fields=[], ghost=[],
                                                 arg_cells=[]))
    reg.method_effects['sample']['ghost'] = ['sstate', 'rng', 'proposals']
    reg.ghost_havoc['proposals'] = havoc_proposals
    reg.ghost_havoc['sstate'] = havoc_sstate
    reg.ghost_havoc['clock'] = havoc_clock

    def getattr_hook(ex, st, o, d, name, node):
        if isinstance(d, Sym) and d.k == 'Bound':
            if name == 'log_v':
                return Sym(LV(d.t, z3.Select(sstate(st), d.t)), 'real')
            if name in ('n_ell', 'n_net'):
                return fresh('int', name)
        return NotImplemented
    reg.getattr_hook = getattr_hook

    def isinstance_hook(ex, st, v, ty, node):
        v = ex.deref(st, v)
        if isinstance(v, Sym) and v.k == 'Bound' and isinstance(ty, ClassVal) \
                and ty.name == 'NautilusBound':
            return Sym(isNB(v.t), 'bool')
        return NotImplemented
    reg.isinstance_hook = isinstance_hook

    def zeros2(ex, st, shp, val, k, node):
        # np.zeros((n, n_dim)): n rows of the point sort
        return st.alloc(A.fresh_arr(st, 'Pt', 'zeros_pts', n=I(shp[0])), 'z')
    reg.zeros2_hook = zeros2


# ---------------------------------------------------------------------------
# blobs / user function consistency

HAS_BLOBS = z3.Bool('user_likelihood_returns_blobs')


def inv_blobs(V):
    """the user's likelihood either always or never returns blobs (assumption
    on the user function); blobs exist as soon as anything was evaluated"""
    bn, bl = blobs_of(V)
    btn, blt = blobs_of(V, 'blobs_t')
    dt = V.raw('self.blobs_dtype')
    dtn = dt.isnone if isinstance(dt, MaybeNone) else z3.BoolVal(dt is None)
    nb = S(V, 'bounds').n
    pts = S(V, 'points')
    out = [('blobs_iff_user_returns_blobs', z3.And(
        z3.Implies(z3.Not(bn), HAS_BLOBS),
        z3.Implies(z3.And(bn, HAS_BLOBS), z3.And(
            V.int('self.n_like') == 0, nb <= 1,
            A.forall_idx(pts.n, lambda i: pts.alen(i) == 0))),
        z3.Implies(z3.Not(bn), z3.Not(dtn)),
        z3.Implies(z3.Not(bn), nb >= 1),
        z3.Implies(z3.Not(btn), z3.Not(bn)),
        z3.Implies(z3.And(btn, z3.Not(bn), z3.Not(V.bool('self.explored'))),
                   S(V, 'points_t').n == 0)))]
    if blt is not None:
        out.append(('blobs_t_aligned', z3.Implies(
            z3.And(z3.Not(btn), z3.Not(V.bool('self.explored'))),
            blt.n == S(V, 'points_t').n)))
    if bl is not None:
        i = A.qi('i')
        out.append(('blobs_rows_aligned', z3.Implies(z3.Not(bn), z3.ForAll(
            [i], z3.Implies(z3.And(i >= 0, i < nb),
                            bl.alen(i) == pts.alen(i))))))
    return out


def inv_rows_aligned(V):
    pts, ll = S(V, 'points'), S(V, 'log_l')
    return [('log_l_rows_aligned', A.forall_idx(
        pts.n, lambda i: ll.alen(i) == pts.alen(i)))]


def inv_config(V):
    return [('config', z3.And(V.int('self.n_batch') >= 1,
                              V.int('self.n_live') >= 1,
                              V.int('self.n_points_min') >= 1,
                              V.int('self.n_like') >= 0))]


def InvAll(V):
    return (InvP(V) + inv_blobs(V) + inv_rows_aligned(V) + inv_config(V))


def install_sampler_hooks(reg):
    """list-valued fields assigned from a literal list of arrays become the
    list-of-arrays abstraction"""
    def hook(ex, st, o, attr, v, node):
        if attr in ('points', 'log_l', 'blobs') and isinstance(v, Ref) and \
                isinstance(st.cell(v), PyList):
            from pyvc.npmodel import resolve
            items = [ex.deref(st, resolve(ex, st, x))
                     for x in st.cell(v).items]
            if items and all(isinstance(x, Arr) for x in items):
                k = items[0].k

                def alen(i, items=items):
                    r = items[-1].n
                    for j in range(len(items) - 2, -1, -1):
                        r = z3.If(i == j, items[j].n, r)
                    return r

                def at(i, jj, items=items):
                    r = items[-1].at(jj)
                    for j in range(len(items) - 2, -1, -1):
                        r = z3.If(i == j, items[j].at(jj), r)
                    return r
                st.setfield(o, attr, st.alloc(LArr(len(items), alen, at, k),
                                              attr))
                return True
        return False
    reg.setattr_hook = hook


# ---------------------------------------------------------------------------
# C02: per-shell statistics are the estimators of the stored samples

from pyvc.lib import lse_term as lse_of  # noqa: E402


def inv_exp_arrays(V):
    """S3: the snapshot taken at the end of exploration is a prefix of what is
    stored now; S2: in either view there are never more samples than
    proposals"""
    nb = S(V, 'bounds').n
    expl = V.bool('self.explored')
    ll = S(V, 'log_l')
    ee, ne, ns = S(V, 'shell_end_exp'), S(V, 'shell_n_sample_exp'), \
        S(V, 'shell_n_sample')
    return [('S2_samples_le_proposals', A.forall_idx(nb, lambda i: z3.And(
        ll.alen(i) >= 0, ll.alen(i) <= ns.at(i)))),
        ('S3_exploration_snapshot', z3.Implies(expl, z3.And(
            ee.n == nb, ne.n == nb, A.forall_idx(nb, lambda i: z3.And(
                ee.at(i) >= 0, ee.at(i) <= ll.alen(i), ne.at(i) >= 0,
                ne.at(i) <= ns.at(i),
                ll.alen(i) - ee.at(i) <= ns.at(i) - ne.at(i))))))]


def shell_view(V, i):
    """(start, n_sample, log_l array) of shell i under the current
    discard_exploration view"""
    disc = z3.And(V.bool('self._discard_exploration'), V.bool('self.explored'))
    start = z3.If(disc, S(V, 'shell_end_exp').at(i), z3.IntVal(0))
    ns = S(V, 'shell_n_sample').at(i) - z3.If(
        disc, S(V, 'shell_n_sample_exp').at(i), z3.IntVal(0))
    ll_full = S(V, 'log_l').elem(i)
    ll = Arr(ll_full.n - start, lambda j: ll_full.at(start + j), 'real')
    return start, ns, ll


def S1_at(V, i):
    st = V.st
    start, ns, ll = shell_view(V, i)
    n = ll.n
    b = S(V, 'bounds').at(i)
    lv = LV(b, z3.Select(sstate(st), b))
    ll2 = Arr(ll.n, lambda j: 2 * ll.at(j), 'real')
    all_inf = A.forall_idx(n, lambda j: ll.at(j) == NEG_INF)
    sn, slv, sll, sne = (S(V, 'shell_n').at(i), S(V, 'shell_log_v').at(i),
                         S(V, 'shell_log_l').at(i), S(V, 'shell_n_eff').at(i))
    nr = z3.ToReal(n)
    lse1, lse2 = lse_of(st, ll), lse_of(st, ll2)
    return [
        ('S1_shell_n', sn == n),
        ('S1_log_v', z3.Implies(n > 0, slv == lv + f_log(nr / z3.ToReal(ns)))),
        ('S1_log_l', z3.Implies(n > 0, sll == lse1 - f_log(nr))),
        ('S1_n_eff_all_zero_likelihood', z3.Implies(
            z3.And(n > 0, all_inf), sne == nr)),
        ('S1_n_eff_kish', z3.Implies(
            z3.And(n > 0, z3.Not(all_inf)), sne == f_exp(2 * lse1 - lse2))),
        ('S1_empty', z3.Implies(n == 0, z3.And(
            slv == NEG_INF, sll == NAN, sne == 0))),
    ]


def inv_N(V):
    """shell_n is the number of stored samples in the current view"""
    nb = S(V, 'bounds').n
    i = A.qi('i')

    def body(i):
        start, ns, ll = shell_view(V, i)
        return S(V, 'shell_n').at(i) == ll.n
    return [('S1_shell_n_counts_view', z3.ForAll([i], z3.Implies(
        z3.And(i >= 0, i < nb), body(i))))] + inv_exp_arrays(V)


def InvAll(V):    # noqa: F811
    return (InvP(V) + inv_blobs(V) + inv_rows_aligned(V) + inv_config(V) +
            inv_N(V) + inv_A(V))


def InvAllS(V):
    return InvAll(V) + inv_S(V)


def inv_phase(V):
    nb = S(V, 'bounds').n
    expl = V.bool('self.explored')
    pts = S(V, 'points')
    return [('explored_needs_bounds', z3.Implies(expl, nb >= 1)),
            ('X_shells_nonempty_after_exploration', z3.Implies(
                expl, A.forall_idx(nb, lambda i: pts.alen(i) >= 1)))]


def InvRun(V):
    return InvAll(V) + inv_phase(V)


def inv_A(V):
    """C03 alignment: every stored log-likelihood / blob is the value the user
    likelihood returned for the stored point of the same row"""
    pts, ll = S(V, 'points'), S(V, 'log_l')
    nb = S(V, 'bounds').n
    i, j = A.qi('i'), A.qi('j')
    out = [('A1_log_l_is_likelihood_of_point', z3.ForAll([i, j], z3.Implies(
        z3.And(i >= 0, i < nb, j >= 0, j < pts.alen(i)),
        ll.at(i, j) == L(pts.at(i, j)))))]
    bn, bl = blobs_of(V)
    if bl is not None:
        out.append(('A1_blob_is_blob_of_point', z3.Implies(
            z3.Not(bn), z3.ForAll([i, j], z3.Implies(
                z3.And(i >= 0, i < nb, j >= 0, j < pts.alen(i)),
                bl.at(i, j) == Bl(pts.at(i, j)))))))
    pt, lt = S(V, 'points_t'), S(V, 'log_l_t')
    expl = V.bool('self.explored')
    out.append(('A2_transfer_candidates_aligned', z3.Implies(
        z3.Not(expl), A.forall_idx(pt.n, lambda t: lt.at(t) == L(pt.at(t))))))
    btn, blt = blobs_of(V, 'blobs_t')
    if isinstance(blt, Arr):
        out.append(('A2_transfer_blobs_aligned', z3.Implies(
            z3.And(z3.Not(expl), z3.Not(btn)), A.forall_idx(
                pt.n, lambda t: blt.at(t) == Bl(pt.at(t))))))
    return out


# ---------------------------------------------------------------------------
# C02: ghost "statistics up to date" bit per bound (DESIGN.md 7, C02)
#
# statfresh[b] is set by update_shell_info (whose body is proved to establish
# S1 for that shell) and cleared by every write to an input of S1 of the shell
# of bound b: its log_l array, its proposal counter, the bound's sampling state,
# the view parameters; and by every write to the four statistic arrays outside
# update_shell_info.

def statfresh(st):
    if 'statfresh' not in st.ghost:
        st.ghost['statfresh'] = z3.Array(uid('statfresh'), Bound,
                                         z3.BoolSort())
    return st.ghost['statfresh']


def havoc_statfresh(ex, st):
    st.ghost['statfresh'] = z3.Array(uid('statfresh'), Bound, z3.BoolSort())


def invalidate(st, b):
    st.ghost['statfresh'] = z3.Store(statfresh(st), b, z3.BoolVal(False))


def invalidate_all(st):
    st.ghost['statfresh'] = z3.K(Bound, z3.BoolVal(False))


STAT_INPUT_ARRAYS = ('log_l', 'shell_n_sample')
STAT_OUTPUT_ARRAYS = ('shell_n', 'shell_log_v', 'shell_log_l', 'shell_n_eff')
VIEW_FIELDS = ('_discard_exploration', 'explored', 'shell_end_exp',
               'shell_n_sample_exp')


def install_stat_tracking(reg):
    reg.ghost_havoc['statfresh'] = havoc_statfresh

    def store_hook(ex, st, base, ii):
        self_ = st.env.get('self')
        if not isinstance(self_, Ref):
            return
        rec = st.cell(self_)
        if not isinstance(rec, ObjRec) or rec.cls != 'Sampler':
            return
        if st.ghost.get('in_update_shell_info'):
            return
        for f in STAT_INPUT_ARRAYS + STAT_OUTPUT_ARRAYS:
            v = rec.fields.get(f)
            if isinstance(v, Ref) and v.oid == base.oid:
                b = ex.deref(st, rec.fields['bounds'])
                invalidate(st, b.at(ii))
    reg.store_hook = store_hook
    prev = reg.setattr_hook

    def setattr_hook(ex, st, o, attr, v, node):
        if attr in VIEW_FIELDS and isinstance(o, Ref) and isinstance(
                st.cell(o), ObjRec) and st.cell(o).cls == 'Sampler':
            invalidate_all(st)
        if prev is not None:
            return prev(ex, st, o, attr, v, node)
        return False
    reg.setattr_hook = setattr_hook


def never_sampled(V, i):
    return z3.And(S(V, 'shell_n_sample').at(i) == 0,
                  S(V, 'log_l').alen(i) == 0, S(V, 'shell_n').at(i) == 0,
                  S(V, 'shell_n_eff').at(i) == 0,
                  S(V, 'shell_log_l').at(i) == NAN)


def inv_S(V):
    b = S(V, 'bounds')
    f = statfresh(V.st)
    return [('S_statistics_up_to_date', A.forall_idx(
        b.n, lambda i: z3.Or(z3.Select(f, b.at(i)), never_sampled(V, i))))]
