"""Symbolic model of nautilus.bounds.union.Union and its member bounds
(Ellipsoid / UnitCubeEllipsoidMixture as the abstract sort Member)."""
import ast
import z3

from pyvc.core import (State, Sym, Arr, Arr2, LArr, SList, PyList, ObjRec, Ref,
                       Opaque, ClassVal, fresh, fresh_fn, uid, I, B, sort_of,
                       OutsideSubset, Raised)
from pyvc import arrays as A
from pyvc.npmodel import MaybeNone, NEG_INF
from pyvc.symexec import Lib

Pt = sort_of('Pt')
Member = sort_of('Member')
Cm = z3.Function('Cm', Member, Pt, z3.BoolSort())        # member.contains
LVm = z3.Function('LVm', Member, z3.RealSort())          # member.log_v
incube = z3.Function('incube', Pt, z3.BoolSort())
is_ell = z3.Function('is_Ellipsoid', Member, z3.BoolSort())
UQ = 'nautilus.bounds.union.Union.'


def make_union(ex, st, G):
    n = z3.Int(uid('n_members'))
    st.assume(n >= 1)
    f = {}
    f['n_dim'] = fresh('int', 'n_dim')
    st.assume(f['n_dim'].t >= 1)
    f['enlarge_per_dim'] = fresh('real', 'enlarge')
    st.assume(f['enlarge_per_dim'].t >= 1)
    f['n_points_min'] = fresh('int', 'n_points_min')
    f['cube'] = MaybeNone(z3.Bool(uid('cube_none')), Opaque('cube'))
    f['points_bounds'] = st.alloc(A.fresh_larr(st, 'Pt', 'points_bounds',
                                               n=z3.Int(uid('pb_n'))), 'pb')
    f['bounds'] = st.alloc(A.fresh_slist(st, 'Member', 'members', n=n), 'mb')
    f['log_v_all'] = st.alloc(A.fresh_arr(st, 'real', 'log_v_all'), 'lv')
    f['block'] = st.alloc(A.fresh_arr(st, 'bool', 'block'), 'block')
    f['points'] = st.alloc(A.fresh_arr(st, 'Pt', 'cache'), 'cache')
    f['n_sample'] = fresh('int', 'n_sample')
    f['n_reject'] = fresh('int', 'n_reject')
    f['rng'] = Opaque('rng')
    return st.alloc(ObjRec('Union', f), 'self')


def S(V, name):
    return V('self.' + name)


def InvU(V, with_block=True):
    b = S(V, 'bounds')
    n = b.n
    pb, lv, bl = S(V, 'points_bounds'), S(V, 'log_v_all'), S(V, 'block')
    nd = V.int('self.n_dim')
    npm = V.int('self.n_points_min')
    out = [('U0_one_record_per_member', z3.And(
        n >= 1, pb.n == n, lv.n == n, *( [bl.n == n] if with_block else []))),
        ('U1_volumes_current', A.forall_idx(
            n, lambda i: lv.at(i) == LVm(b.at(i)))),
        ('U1_volumes_finite', A.forall_idx(
            n, lambda i: lv.at(i) > NEG_INF)),
        ('U1_enough_points_per_member', A.forall_idx(
            n, lambda i: pb.alen(i) > nd)),
        ('U_config', z3.And(npm >= nd + 1, nd >= 1)),
        ('U3_counters', z3.And(V.int('self.n_sample') >= 0,
                               V.int('self.n_reject') >= 0,
                               V.int('self.n_reject') <=
                               V.int('self.n_sample'))),
        ('U5_same_member_class', A.forall_idx(
            n, lambda i: is_ell(b.at(i)) == is_ell(b.at(0))))]
    if with_block:
        out.append(('U4_splittable_has_twice_min_points', A.forall_idx(
            n, lambda i: z3.Implies(z3.Not(bl.at(i)),
                                    pb.alen(i) >= 2 * npm))))
    return out


def install_member_api(reg, cx):
    cx.assume_tag('MemberAPI: member.compute(points) needs more rows than '
                  'dimensions and returns a bound of the same class; '
                  'member.contains is pure; member.sample(n) returns n rows '
                  'inside the member (C07)')

    def m_contains(ex, st, m, args, kw, node):
        p = ex.deref(st, args[0])
        return st.alloc(Arr(p.n, lambda j: Cm(m.t, p.at(j)), 'bool'), 'inm')

    def m_sample(ex, st, m, args, kw, node):
        n = I(args[0])
        ex.reg.havoc_ghost(ex, st, 'rng')
        k = st.ghost.get('comp_index')
        if k is not None:
            f2 = fresh_fn(['int', 'int'], 'Pt', 'msample')
            r = Arr(n, lambda j: f2(k, j), 'Pt')
        else:
            r = A.fresh_arr(st, 'Pt', 'msample', n=n)
        ex.need(st)('sample_count_nonneg', n >= 0)
        fact = A.forall_idx(n, lambda j: Cm(m.t, r.at(j)))
        if k is not None:
            # parametric in the comprehension index: generalised by the caller
            st.ghost['comp_facts'] = st.ghost.get('comp_facts', ()) + (fact,)
        st.assume(fact)
        return st.alloc(r, 'msample')

    def m_transform(ex, st, m, args, kw, node):
        p = ex.deref(st, args[0])
        return st.alloc(A.fresh_arr(st, 'Pt', 'transformed', n=p.n), 'tr')
    reg.sort_methods[('Member', 'contains')] = m_contains
    reg.sort_methods[('Member', 'sample')] = m_sample
    reg.sort_methods[('Member', 'transform')] = m_transform
    reg.method_effects.setdefault('sample', dict(fields=[], ghost=['rng'],
                                                 arg_cells=[]))

    prev_getattr = reg.getattr_hook

    def getattr_hook(ex, st, o, d, name, node):
        if isinstance(d, Sym) and d.k == 'Member' and name == 'log_v':
            return Sym(LVm(d.t), 'real')
        if isinstance(d, Sym) and d.k == 'Member' and name == '__class__':
            return Opaque('memberclass')
        if prev_getattr is not None:
            return prev_getattr(ex, st, o, d, name, node)
        return NotImplemented
    reg.getattr_hook = getattr_hook

    def isinstance_hook(ex, st, v, ty, node):
        v = ex.deref(st, v)
        if isinstance(v, Sym) and v.k == 'Member' and isinstance(ty, ClassVal) \
                and ty.name == 'Ellipsoid':
            return Sym(is_ell(v.t), 'bool')
        return NotImplemented
    reg.isinstance_hook = isinstance_hook

    # type(member) -> its class; cls.compute(points, ...) builds a new member
    def b_type(ex, st, args, kw, node):
        v = ex.deref(st, args[0])
        if isinstance(v, Sym) and v.k == 'Member':
            return MemberClass(v.t)
        raise OutsideSubset('type({!r})'.format(v), node)
    reg.lib['type'] = b_type

    def opaque_call(ex, st, f, args, kw, node):
        raise OutsideSubset('call of {!r}'.format(f), node)
    reg.opaque_call = opaque_call

    def zeros2(ex, st, shp, val, k, node):
        return st.alloc(A.fresh_arr(st, 'Pt', 'zeros_pts', n=I(shp[0])), 'z')
    reg.zeros2_hook = zeros2


class MemberClass:
    """class object of a member bound (Ellipsoid or the mixture)"""

    def __init__(self, like):
        self.like = like


def member_compute(ex, st, cls, args, kw, node, G):
    pts = ex.deref(st, args[0])
    nd = G['n_dim']
    # Ellipsoid.compute raises ValueError unless rows > n_dim
    ex.need(st)('compute_needs_more_points_than_dimensions', pts.n > nd)
    m = fresh('Member', 'new_member')
    st.assume(is_ell(m.t) == is_ell(cls.like))
    st.assume(LVm(m.t) > NEG_INF)      # a computed bound has a finite volume
    ex.reg.havoc_ghost(ex, st, 'rng')
    built = st.ghost.get('built_from', ())
    st.ghost['built_from'] = built + ((m.t, pts),)
    return m
