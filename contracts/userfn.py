"""Theory of the user-supplied functions used by Sampler.evaluate_likelihood.

prior transform  T : Pt -> Phys        (pure as a value map; it MAY modify the
                                        array object it is given in place)
likelihood       L : Pt -> Real, Bl : Pt -> Blob   (values for the transformed
                                        point of a unit-cube point)
The likelihood returns a tuple (log_l, blob...) iff HAS_BLOBS.
Results are sequences in input order: serial map, vectorised call, and
pool.map (ordered map: assumed contract of multiprocessing.Pool.map / dask
gather(map); C11).
"""
import ast
import z3

from pyvc.core import (Sym, Arr, PyList, Ref, Opaque, fresh, fresh_fn, uid, I,
                       B, OutsideSubset, Raised, sort_of)
from pyvc import arrays as A
from pyvc.symexec import Lib, BoundMethod, IterDom
from . import sampler_model as M
from .sampler_model import L, Bl, HAS_BLOBS
from .posterior import T, PRIOR_CALLABLE, Phys

SRC = z3.Function('phys_source', Phys, M.Pt)      # ghost: T is injective on ids
BLOB_ARITY = z3.Int('blob_arity')


class ResSeq:
    """sequence of likelihood results, one per input row, in input order"""

    def __init__(self, args, vectorised_tuple=False):
        self.args = args                  # Arr of Phys
        self.vectorised_tuple = vectorised_tuple


class PhysBatch:
    """what a vectorised prior transform returns for a whole batch: an array
    with one row per point OR a dictionary of arrays (nautilus.Prior with
    pass_dict, or a user callable). The code may only hand it to the
    likelihood; its len() / indexing mean different things in the two cases"""

    def __init__(self, rows):
        self.rows = rows                  # Arr of Phys (ghost: row view)


class ResRow:
    def __init__(self, phys):
        self.phys = phys                  # z3 term of sort Phys


def axioms(st):
    p = z3.Const('p!q', M.Pt)
    # ghost pairing: a transformed point remembers its unit-cube source
    st.assume(z3.ForAll([p], SRC(T(p)) == p))
    st.assume(BLOB_ARITY >= 1)


def install(reg, G):
    def transform_arr(ex, st, pref):
        p = ex.deref(st, pref)
        if not (isinstance(p, Arr) and p.k == 'Pt'):
            raise OutsideSubset('transform of {!r}'.format(p))
        res = Arr(p.n, lambda j, p=p: T(p.at(j)), 'Phys')
        # the user's prior may write into the array object it receives
        if isinstance(pref, Ref):
            st.set_cell(pref, A.fresh_arr(st, 'Pt', 'clobbered', n=p.n))
        G.setdefault('transform_calls', 0)
        G['transform_calls'] += 1
        return st.alloc(res, 'phys')

    def prior_method(ex, st, args, kw, node):
        # direct (vectorised) call on the whole batch
        return PhysBatch(ex.deref(st, transform_arr(ex, st, args[1])))
    reg.lib['prior.unit_to_dictionary'] = prior_method
    reg.lib['prior.unit_to_physical'] = prior_method

    def callable_hook(ex, st, v, node):
        if isinstance(v, Opaque) and v.what == 'prior':
            return Sym(PRIOR_CALLABLE, 'bool')
        raise OutsideSubset('callable({!r})'.format(v), node)
    reg.callable_hook = callable_hook

    def likelihood_of(ex, st, a):
        a = ex.deref(st, a)
        if isinstance(a, PhysBatch):
            return a.rows
        if isinstance(a, Arr) and a.k == 'Phys':
            return a
        raise OutsideSubset('likelihood argument {!r}'.format(a))

    def opaque_call(ex, st, f, args, kw, node):
        if f.what == 'prior':
            return PhysBatch(ex.deref(st, transform_arr(ex, st, args[0])))
        if f.what == 'likelihood':
            # vectorised call: one call with all rows
            a = likelihood_of(ex, st, args[0])
            st.ghost['like_calls'] = st.ghost.get('like_calls', ()) + (a,)
            return ResSeq(a, vectorised_tuple=True)
        raise OutsideSubset('call of {!r}'.format(f), node)
    reg.opaque_call = opaque_call

    def b_map(ex, st, args, kw, node):
        f, xs = args[0], args[1]
        fd = ex.deref(st, f.recv) if isinstance(f, BoundMethod) else f
        if isinstance(fd, Opaque) and fd.what == 'prior':
            return transform_arr(ex, st, xs)
        if isinstance(fd, Opaque) and fd.what == 'likelihood':
            a = likelihood_of(ex, st, xs)
            st.ghost['like_calls'] = st.ghost.get('like_calls', ()) + (a,)
            return ResSeq(a)
        raise OutsideSubset('map({!r}, ...)'.format(f), node)
    reg.lib['map'] = b_map
    prev_len = reg.len_hook

    def len_hook(ex, st, v, node):
        if isinstance(v, PhysBatch):
            raise OutsideSubset('len() of the value a vectorised prior '
                                'transform returned (array or dictionary)',
                                node)
        if prev_len is not None:
            return prev_len(ex, st, v, node)
        return NotImplemented
    reg.len_hook = len_hook

    def pool_map(ex, st, args, kw, node):
        # args: [pool, func, iterable]
        return b_map(ex, st, args[1:], kw, node)
    reg.lib['pool.map'] = pool_map

    def b_list(ex, st, v, node):
        if isinstance(v, ResSeq):
            return ResSeq(v.args)
        raise OutsideSubset('list({!r})'.format(v), node)
    reg.list_hook = b_list
    base_zip = reg.lib['zip']

    def b_zip(ex, st, args, kw, node):
        if len(args) == 1 and isinstance(args[0], Opaque) and \
                args[0].what == '*args':
            v = st.ghost.get('star_value')
            if isinstance(v, ResSeq):
                # zip(*(log_l, blob...)) of a vectorised result: one tuple per
                # row, in row order
                return ResSeq(v.args)
        return base_zip(ex, st, args, kw, node)
    reg.lib['zip'] = b_zip

    def iter_hook(ex, st, v, node):
        if isinstance(v, ResSeq):
            return IterDom(v.args.n, lambda k: ResRow(v.args.at(k)))
        return None
    reg.iter_hook = iter_hook

    def isinstance_hook(ex, st, v, ty, node):
        nm = getattr(ty, 'name', None)
        if isinstance(v, ResSeq) and nm == 'tuple':
            # a vectorised likelihood returns a tuple iff it returns blobs
            if v.vectorised_tuple:
                return Sym(HAS_BLOBS, 'bool')
            return False
        if isinstance(v, ResRow) and nm == 'tuple':
            return Sym(HAS_BLOBS, 'bool')
        return NotImplemented
    reg.isinstance_hook = isinstance_hook

    def subscript_hook(ex, st, base, d, sl, node):
        if isinstance(d, ResSeq):
            idx = ex.eval(sl, st)
            ii = A.norm_index(d.args.n, idx)
            ex.need(st)('result_index', z3.And(ii >= 0, ii < d.args.n))
            return ResRow(d.args.at(ii))
        if isinstance(d, ResRow):
            idx = ex.eval(sl, st)
            if isinstance(idx, slice):
                return Sym(Bl(SRC(d.phys)), 'Blob')
            if idx == 0:
                return Sym(L(SRC(d.phys)), 'real')
            raise OutsideSubset('result component', node)
        if isinstance(d, Sym) and d.k == 'Blob':
            return Opaque('blob_component')
        return NotImplemented
    reg.subscript_hook = subscript_hook

    def len_hook(ex, st, v, node):
        if isinstance(v, Sym) and v.k == 'Blob':
            return Sym(BLOB_ARITY, 'int')
        if isinstance(v, ResSeq):
            return Sym(v.args.n, 'int')
        raise OutsideSubset('len of {!r}'.format(v), node)
    reg.len_hook = len_hook
    base_enum = reg.lib['enumerate']

    def b_enumerate(ex, st, args, kw, node):
        v = ex.deref(st, args[0])
        if isinstance(v, Sym) and v.k == 'Blob':
            return IterDom(BLOB_ARITY, lambda k: (Sym(k, 'int'),
                                                  Opaque('blob_component')))
        return base_enum(ex, st, args, kw, node)
    reg.lib['enumerate'] = b_enumerate

    def np_array_hook(ex, st, v, kw, node):
        if isinstance(v, ResSeq):
            # np.array(result) for a likelihood without blobs
            a = v.args
            return st.alloc(Arr(a.n, lambda j: L(SRC(a.at(j))), 'real'), 'll')
        if isinstance(v, PyList) and v.items and all(
                isinstance(x, Opaque) or (isinstance(x, Sym) and x.k == 'Blob')
                for x in v.items):
            return Opaque('blobarr')
        if isinstance(v, Arr) and v.k == 'Blob':
            return st.alloc(Arr(v.n, v.fn, 'Blob', tag=('batched',)), 'barr')
        return NotImplemented
    reg.np_array_hook = np_array_hook
    prev_getattr = reg.getattr_hook

    def getattr_hook(ex, st, o, d, name, node):
        if isinstance(d, Opaque) and d.what == 'blobarr' and name == 'dtype':
            return Opaque('dtype')
        if isinstance(d, Opaque) and d.what in ('prior', 'pool'):
            return BoundMethod(o, name)
        if prev_getattr is not None:
            return prev_getattr(ex, st, o, d, name, node)
        return NotImplemented
    reg.getattr_hook = getattr_hook

    def np_squeeze(ex, st, args, kw, node):
        a = ex.deref(st, args[0])
        if not (isinstance(a, Arr) and a.k == 'Blob'):
            raise OutsideSubset('np.squeeze({!r})'.format(a), node)
        if 'axis' in kw:
            raise OutsideSubset('np.squeeze with axis', node)
        # numpy: every axis of length one is removed - including the batch
        # axis when there is exactly one row. Then the leading dimension of the
        # result is whatever remains of the blob shape (or the array is 0-d).
        n2 = z3.Int(uid('squeezed_len'))
        st.assume(z3.Implies(a.n != 1, n2 == a.n))
        return st.alloc(Arr(n2, a.fn, 'Blob', tag=('squeezed', a)), 'sq')
    reg.lib['np.squeeze'] = np_squeeze
    base_sub = reg.subscript_hook

    def subscript_hook2(ex, st, base, d, sl, node):
        if isinstance(d, Arr) and isinstance(d.tag, tuple) and \
                d.tag[0] == 'squeezed':
            idx = ex.eval(sl, st)
            if idx is None:
                # x[np.newaxis]: new leading axis of length one. For a squeezed
                # single row this restores the batch axis.
                a = d.tag[1]
                if ex.decide(st, a.n == 1):
                    return st.alloc(Arr(1, a.fn, 'Blob'), 'unsq')
                raise OutsideSubset('newaxis on a batched array', node)
        return base_sub(ex, st, base, d, sl, node)
    reg.subscript_hook = subscript_hook2
