"""Array / mask theory over functional arrays (DESIGN.md 4.3).

Every operation takes the State (to add the defining axioms of fresh symbols to
the path condition) and returns new immutable values. Operations that numpy
would reject (length mismatch, index out of range) produce *obligations* through
the ``need`` callback, never assumptions.
"""
import z3
from .core import (Arr, Arr2, LArr, SList, Sym, fresh, fresh_fn, sort_of, uid,  # noqa
                   I, B, OutsideSubset, concrete_int)

ZERO = z3.IntVal(0)


def zv(x, k):
    """python/Sym scalar -> z3 term of kind k"""
    if isinstance(x, Sym):
        if x.k == k:
            return x.t
        if k == 'real' and x.k == 'int':
            return z3.ToReal(x.t)
        if k == 'int' and x.k == 'bool':
            return z3.If(x.t, z3.IntVal(1), z3.IntVal(0))
        if k == 'real' and x.k == 'bool':
            return z3.If(x.t, z3.RealVal(1), z3.RealVal(0))
        if k == 'fp' and x.k == 'int':
            return int_to_fp(x.t)
        raise OutsideSubset('cannot use {} as {}'.format(x.k, k))
    if k == 'int':
        if isinstance(x, (bool, int)):
            return z3.IntVal(int(x))
    if k == 'real':
        if isinstance(x, (bool, int)):
            return z3.RealVal(int(x))
        if isinstance(x, float):
            if x != x or x in (float('inf'), float('-inf')):
                raise OutsideSubset('special float needs extended reals')
            return z3.RealVal(repr(x))
    if k == 'bool' and isinstance(x, bool):
        return z3.BoolVal(x)
    if k == 'fp' and isinstance(x, (bool, int, float)):
        return z3.FPVal(float(x), z3.Float64())
    if z3.is_expr(x):
        return x
    raise OutsideSubset('cannot use {!r} as {}'.format(x, k))


def int_to_fp(t):
    """int term -> binary64 without going through symbolic reals when the term
    is a literal or an if-then-else tree of literals"""
    t = z3.simplify(t)
    if z3.is_int_value(t):
        return z3.FPVal(float(t.as_long()), z3.Float64())
    if z3.is_app(t) and t.decl().kind() == z3.Z3_OP_ITE:
        c, a, b = t.children()
        return z3.If(c, int_to_fp(a), int_to_fp(b))
    return z3.fpToFP(z3.RNE(), z3.ToReal(t), z3.Float64())


def fresh_arr(st, k, hint='a', n=None):
    if n is None:
        n = z3.Int(uid(hint + '_n'))
        st.assume(n >= 0)
    f = fresh_fn(['int'], k, hint)
    return Arr(n, lambda i: f(i), k)


def fresh_arr2(st, nr=None, nc=None, hint='m', k='real'):
    if nr is None:
        nr = z3.Int(uid(hint + '_nr'))
        st.assume(nr >= 0)
    if nc is None:
        nc = z3.Int(uid(hint + '_nc'))
        st.assume(nc >= 0)
    f = fresh_fn(['int', 'int'], k, hint)
    return Arr2(nr, nc, lambda r, c: f(r, c), k)


def fresh_larr(st, k, hint='L', n=None):
    if n is None:
        n = z3.Int(uid(hint + '_n'))
        st.assume(n >= 0)
    fl = fresh_fn(['int'], 'int', hint + '_len')
    fa = fresh_fn(['int', 'int'], k, hint + '_at')
    i = z3.Int('i!q')
    st.assume(z3.ForAll([i], fl(i) >= 0))
    return LArr(n, lambda i: fl(i), lambda i, j: fa(i, j), k)


def fresh_slist(st, k, hint='S', n=None):
    if n is None:
        n = z3.Int(uid(hint + '_n'))
        st.assume(n >= 0)
    f = fresh_fn(['int'], k, hint)
    return SList(n, lambda i: f(i), k)


def const_arr(n, val, k):
    t = zv(val, k)
    return Arr(n, lambda i: t, k)


def _is_pat(t):
    return z3.is_app(t) and t.num_args() > 0 and \
        t.decl().kind() == z3.Z3_OP_UNINTERPRETED


def QForAll(vs, body, patterns=None):
    """ForAll with explicit patterns only when they are legal triggers
    (applications of uninterpreted functions); otherwise let z3 choose."""
    if patterns:
        ok = True
        for p in patterns:
            terms = p.children() if isinstance(p, z3.PatternRef) else [p]
            for t in terms:
                if not _is_pat(t):
                    ok = False
        if ok:
            try:
                return z3.ForAll(vs, body, patterns=patterns)
            except z3.Z3Exception:
                pass
    return z3.ForAll(vs, body)


def qi(name='i'):
    return z3.Int(uid(name + '!q'))


def forall_idx(a_n, body, name='i'):
    """forall i. 0 <= i < a_n -> body(i)"""
    i = qi(name)
    return QForAll([i], z3.Implies(z3.And(i >= 0, i < a_n), body(i)))


def exists_idx(a_n, body, name='i'):
    i = qi(name)
    return z3.Exists([i], z3.And(i >= 0, i < a_n, body(i)))


def arr_eq(a, b):
    return z3.And(a.n == b.n, forall_idx(a.n, lambda i: a.at(i) == b.at(i)))


# ---------------------------------------------------------------------------
# masks

_PROBE = z3.Int('probe!idx')

_COMM = (z3.Z3_OP_EQ, z3.Z3_OP_DISTINCT, z3.Z3_OP_ADD, z3.Z3_OP_MUL,
         z3.Z3_OP_AND, z3.Z3_OP_OR, z3.Z3_OP_IFF)


def canon_key(t, _memo=None):
    """Structural key of a term, insensitive to the argument order of
    commutative operators (z3 may build `0 == x` or `x == 0`)."""
    if _memo is None:
        _memo = {}
    i = t.get_id()
    if i in _memo:
        return _memo[i][1]
    if z3.is_app(t):
        ch = [canon_key(c, _memo) for c in t.children()]
        if t.decl().kind() in _COMM:
            ch.sort()
        r = '(' + t.decl().name() + ':' + str(t.decl().kind()) + ' ' + \
            ' '.join(ch) + ')' if ch else str(t)
    elif z3.is_var(t):
        r = 'v' + str(z3.get_var_index(t))
    elif z3.is_quantifier(t):
        r = ('A' if t.is_forall() else 'E') + str(t.num_vars()) + \
            canon_key(t.body(), _memo)
    else:
        r = str(t)
    _memo[i] = (t, r)
    return r


class MaskInfo:
    """count / sel / rank of a boolean mask and of its complement."""

    def __init__(self, st, m):
        n = m.n
        self.n = n
        self.m = m
        self.cnt = z3.Int(uid('cnt'))
        self.sel = fresh_fn(['int'], 'int', 'sel')
        self.rank = fresh_fn(['int'], 'int', 'rank')
        self.nsel = fresh_fn(['int'], 'int', 'nsel')
        self.nrank = fresh_fn(['int'], 'int', 'nrank')
        c, sel, rank = self.cnt, self.sel, self.rank
        nc, nsel, nrank = n - c, self.nsel, self.nrank
        j, k, i = qi('j'), qi('k'), qi('i')
        ax = [c >= 0, c <= n]
        for (cc, s, r, pos) in ((c, sel, rank, True), (nc, nsel, nrank, False)):
            lit = (lambda t: m.at(t)) if pos else (lambda t: z3.Not(m.at(t)))
            ax.append(QForAll([j], z3.Implies(
                z3.And(j >= 0, j < cc),
                z3.And(s(j) >= 0, s(j) < n, lit(s(j)), r(s(j)) == j)),
                patterns=[s(j)]))
            ax.append(QForAll([i], z3.Implies(
                z3.And(i >= 0, i < n, lit(i)),
                z3.And(r(i) >= 0, r(i) < cc, s(r(i)) == i)),
                patterns=[r(i)]))
            ax.append(QForAll([j, k], z3.Implies(
                z3.And(j >= 0, j < k, k < cc), s(j) < s(k)),
                patterns=[z3.MultiPattern(s(j), s(k))]))
        # all-true / all-false characterisations
        ax.append(QForAll([i], z3.Implies(
            z3.And(i >= 0, i < n, c == n), m.at(i))))
        ax.append(QForAll([i], z3.Implies(
            z3.And(i >= 0, i < n, c == 0), z3.Not(m.at(i)))))
        ax.append(z3.Implies(forall_idx(n, lambda t: m.at(t)), c == n))
        ax.append(z3.Implies(forall_idx(n, lambda t: z3.Not(m.at(t))), c == 0))
        for a in ax:
            st.assume(a)


def _binary_partition(st, cache, pr, nkey, info, m, memo):
    """masks `f == 0` and `f == 1` over the same index range partition it when
    f only takes the values 0 and 1"""
    if not z3.is_eq(pr):
        return
    a, b = pr.arg(0), pr.arg(1)
    if z3.is_int_value(a):
        a, b = b, a
    if not z3.is_int_value(b) or b.as_long() not in (0, 1):
        return
    sib = z3.simplify(a == (1 - b.as_long()))
    skey = (canon_key(sib, memo), nkey)
    if skey not in cache:
        skey = (canon_key(z3.simplify(z3.Not(sib)), memo), nkey)
        if skey in cache:
            # the sibling is stored through its complement
            info2, m2 = cache[skey]
            f = lambda i: z3.substitute(a, (_PROBE, i))  # noqa: E731
            st.assume(z3.Implies(
                forall_idx(m.n, lambda i: z3.Or(f(i) == 0, f(i) == 1)),
                info.cnt + (m.n - info2.cnt) == m.n))
        return
    if skey in cache:
        info2, m2 = cache[skey]
        f = lambda i: z3.substitute(a, (_PROBE, i))  # noqa: E731
        st.assume(z3.Implies(
            forall_idx(m.n, lambda i: z3.Or(f(i) == 0, f(i) == 1)),
            info.cnt + info2.cnt == m.n))


def mask_info(st, m):
    if m.k != 'bool':
        raise OutsideSubset('mask of kind ' + m.k)
    # complement of a mask shares the info object
    if isinstance(m.tag, tuple) and m.tag[0] == 'not':
        info, pos = mask_info(st, m.tag[1])
        return info, not pos
    cache = st.ghost.setdefault('maskinfo', {})
    # masks are identified structurally: same length term and same element
    # term at a probe index (z3 terms are hash-consed, ids are stable while the
    # term is kept alive in the cache)
    memo = {}
    pr = z3.simplify(m.at(_PROBE))
    nkey = canon_key(z3.simplify(m.n), memo)
    if z3.is_not(pr):
        # elementwise complement of a mask already seen (x < n vs x >= n)
        bkey = (canon_key(pr.arg(0), memo), nkey)
        if bkey in cache:
            return cache[bkey][0], False
    else:
        nk = (canon_key(z3.simplify(z3.Not(pr)), memo), nkey)
        if nk in cache:
            return cache[nk][0], False
    key = (canon_key(pr, memo), nkey)
    if key not in cache:
        cache = dict(cache)
        info = MaskInfo(st, m)
        # extensionality against the other masks of the same length: equal
        # masks have equal count / sel / rank (numpy fact)
        for k2, (info2, m2) in cache.items():
            if k2[1] == nkey:
                j = qi('j')
                st.assume(z3.Implies(
                    forall_idx(m.n, lambda i: m.at(i) == m2.at(i)),
                    z3.And(info.cnt == info2.cnt, z3.ForAll([j], z3.And(
                        info.sel(j) == info2.sel(j),
                        info.rank(j) == info2.rank(j),
                        info.nsel(j) == info2.nsel(j),
                        info.nrank(j) == info2.nrank(j))))))
        _binary_partition(st, cache, m.at(_PROBE), nkey, info, m, memo)
        cache[key] = (info, m)
        st.ghost['maskinfo'] = cache
    return cache[key][0], True


def mask_not(m):
    if isinstance(m.tag, tuple) and m.tag[0] == 'not':
        return m.tag[1]
    return Arr(m.n, lambda i: z3.Not(m.at(i)), 'bool', tag=('not', m))


def count(st, m):
    info, pos = mask_info(st, m)
    return info.cnt if pos else info.n - info.cnt


def sel_of(st, m):
    info, pos = mask_info(st, m)
    if pos:
        return info.cnt, info.sel, info.rank
    return info.n - info.cnt, info.nsel, info.nrank


def filter_mask(st, a, m, need):
    """a[m] for a 1-D array (or row array) a and boolean mask m"""
    need('mask_len', a.n == m.n)
    c, sel, rank = sel_of(st, m)
    return Arr(c, lambda j: a.at(sel(j)), a.k)


def filter_mask2(st, a, m, need):
    need('mask_len', a.nr == m.n)
    c, sel, rank = sel_of(st, m)
    return Arr2(c, a.nc, lambda r, cc: a.at(sel(r), cc), a.k)


def flatnonzero(st, m):
    c, sel, rank = sel_of(st, m)
    return Arr(c, lambda j: sel(j), 'int', tag=('flatnonzero', m),
               facts=dict(distinct=True, within=m))


def assign_mask_scalar(st, a, m, v, need):
    """a[m] = v"""
    need('mask_len', a.n == m.n)
    t = zv(v, a.k)
    return Arr(a.n, lambda i: z3.If(m.at(i), t, a.at(i)), a.k)


def assign_mask_array(st, a, m, b, need):
    """a[m] = b  with len(b) == count(m)"""
    need('mask_len', a.n == m.n)
    c, sel, rank = sel_of(st, m)
    need('mask_assign_len', b.n == c)
    return Arr(a.n, lambda i: z3.If(m.at(i), b.at(rank(i)), a.at(i)), a.k)


def assign_idx_scalar(st, a, idx, v, need):
    """a[idx] = v   (idx integer array)"""
    t = zv(v, a.k)
    need('index_in_range', forall_idx(
        idx.n, lambda j: z3.And(idx.at(j) >= -a.n, idx.at(j) < a.n)))
    hit = fresh_fn(['int'], 'bool', 'hit')
    i, j = qi('i'), qi('j')
    # hit(i) <-> exists j. idx[j] == i  (negative indices normalised)
    norm = lambda x: z3.If(x < 0, x + a.n, x)
    wit = fresh_fn(['int'], 'int', 'hitw')
    st.assume(QForAll([j], z3.Implies(z3.And(j >= 0, j < idx.n),
                                        hit(norm(idx.at(j)))),
                        patterns=[idx.at(j)]))
    st.assume(QForAll([i], z3.Implies(
        z3.And(i >= 0, i < a.n, hit(i)),
        z3.And(wit(i) >= 0, wit(i) < idx.n, norm(idx.at(wit(i))) == i)),
        patterns=[hit(i)]))
    new = Arr(a.n, lambda i: z3.If(hit(i), t, a.at(i)), a.k)
    if a.k == 'int':
        # counting facts for the value written (numpy semantics of a[idx] = v)
        mo = Arr(a.n, lambda i: a.at(i) == t, 'bool')
        mn = Arr(a.n, lambda i: new.at(i) == t, 'bool')
        ca, cn = count(st, mo), count(st, mn)
        j, k = qi('j'), qi('k')
        distinct = z3.ForAll([j, k], z3.Implies(
            z3.And(j >= 0, j < k, k < idx.n), idx.at(j) != idx.at(k)))
        were_other = forall_idx(idx.n, lambda j: a.at(norm(idx.at(j))) != t)
        st.assume(z3.And(cn >= ca, cn <= ca + idx.n))
        if idx.facts.get('distinct'):
            distinct = z3.BoolVal(True)       # known from the construction
        w = idx.facts.get('within')
        if w is not None:
            # every written position satisfies mask w; if w is (pointwise) the
            # negation of `a == t`, the positions held another value before
            pr = z3.simplify(w.at(_PROBE))
            if canon_key(pr) == canon_key(z3.simplify(
                    z3.Not(a.at(_PROBE) == t))):
                were_other = z3.BoolVal(True)
        st.assume(z3.Implies(distinct, cn >= idx.n))
        st.assume(z3.Implies(z3.And(distinct, were_other), cn == ca + idx.n))
    if a.k == 'bool' and v is True:
        # counting fact: setting len(idx) distinct, previously-False positions
        # raises the number of True entries by exactly len(idx)
        ca, cn = count(st, a), count(st, new)
        j, k = qi('j'), qi('k')
        distinct = QForAll([j, k], z3.Implies(
            z3.And(j >= 0, j < k, k < idx.n), idx.at(j) != idx.at(k)))
        were_false = forall_idx(idx.n, lambda j: z3.Not(a.at(norm(idx.at(j)))))
        st.assume(z3.Implies(z3.And(distinct, were_false), cn == ca + idx.n))
        st.assume(z3.And(cn >= ca, cn <= ca + idx.n))
    return new, hit


def gather(st, a, idx, need):
    """a[idx] for integer index array"""
    need('index_in_range', forall_idx(
        idx.n, lambda j: z3.And(idx.at(j) >= -a.n, idx.at(j) < a.n)))
    facts = {}
    if a.facts.get('distinct') and idx.facts.get('distinct') and \
            idx.facts.get('nonneg'):
        facts['distinct'] = True
    if a.facts.get('within') is not None:
        facts['within'] = a.facts['within']
    return Arr(idx.n, lambda j: a.at(z3.If(idx.at(j) < 0, idx.at(j) + a.n,
                                           idx.at(j))), a.k, facts=facts)


def norm_index(n, i):
    c = concrete_int(i)
    if c is not None:
        return (n + c) if c < 0 else z3.IntVal(c)
    i = I(i)
    return z3.If(i < 0, i + n, i)


def index(st, a, i, need):
    ii = norm_index(a.n, i)
    need('index_in_range', z3.And(ii >= 0, ii < a.n))
    return a.at(ii)


def slice_arr(a, lo, hi):
    """a[lo:hi] with Python clipping semantics; lo/hi may be None"""
    n = a.n

    def clip(x, default):
        if x is None:
            return default
        x = I(x)
        x = z3.If(x < 0, x + n, x)
        return z3.If(x < 0, ZERO, z3.If(x > n, n, x))
    lo_t = clip(lo, ZERO)
    hi_t = clip(hi, n)
    ln = z3.If(hi_t >= lo_t, hi_t - lo_t, ZERO)
    return Arr(z3.simplify(ln), lambda j: a.at(lo_t + j), a.k, view=True,
               facts=dict(a.facts))


def reverse(a):
    return Arr(a.n, lambda j: a.at(a.n - 1 - j), a.k, view=True)


def concat2(a, b):
    if a.k != b.k:
        if {a.k, b.k} == {'int', 'real'}:
            a, b = to_real(a), to_real(b)
        else:
            raise OutsideSubset('concatenate {} with {}'.format(a.k, b.k))
    return Arr(a.n + b.n, lambda j: z3.If(j < a.n, a.at(j), b.at(j - a.n)), a.k)


def to_real(a):
    if a.k == 'real':
        return a
    if a.k == 'int':
        return Arr(a.n, lambda i: z3.ToReal(a.at(i)), 'real')
    if a.k == 'bool':
        return Arr(a.n, lambda i: z3.If(a.at(i), z3.RealVal(1), z3.RealVal(0)),
                   'real')
    raise OutsideSubset('to_real of ' + a.k)


def delete_at(st, a, i, need):
    ii = norm_index(a.n, i)
    need('index_in_range', z3.And(ii >= 0, ii < a.n))
    return Arr(a.n - 1, lambda j: a.at(z3.If(j < ii, j, j + 1)), a.k)


def append_scalar(a, v):
    t = zv(v, a.k)
    return Arr(a.n + 1, lambda j: z3.If(j < a.n, a.at(j), t), a.k)


def store(a, i, v):
    t = zv(v, a.k)
    return Arr(a.n, lambda j: z3.If(j == i, t, a.at(j)), a.k)


def all_of(m):
    return forall_idx(m.n, lambda i: m.at(i))


def any_of(m):
    return exists_idx(m.n, lambda i: m.at(i))


def permutation(st, n, hint='perm'):
    """fresh bijection of [0,n)"""
    p = fresh_fn(['int'], 'int', hint)
    q = fresh_fn(['int'], 'int', hint + '_inv')
    i = qi('i')
    st.assume(QForAll([i], z3.Implies(
        z3.And(i >= 0, i < n), z3.And(p(i) >= 0, p(i) < n, q(p(i)) == i)),
        patterns=[p(i)]))
    st.assume(QForAll([i], z3.Implies(
        z3.And(i >= 0, i < n), z3.And(q(i) >= 0, q(i) < n, p(q(i)) == i)),
        patterns=[q(i)]))
    return p, q


# ---------------------------------------------------------------------------
# lists of arrays

def larr_store(L, i, a):
    return LArr(L.n,
                lambda t: z3.If(t == i, a.n, L.alen(t)),
                lambda t, j: z3.If(t == i, a.at(j), L.at(t, j)), L.k)


def larr_append(L, a):
    return LArr(L.n + 1,
                lambda t: z3.If(t == L.n, a.n, L.alen(t)),
                lambda t, j: z3.If(t == L.n, a.at(j), L.at(t, j)), L.k)


def larr_pop(L, i):
    return LArr(L.n - 1,
                lambda t: L.alen(z3.If(t < i, t, t + 1)),
                lambda t, j: L.at(z3.If(t < i, t, t + 1), j), L.k)


def slist_append(S, v):
    return SList(S.n + 1, lambda t: z3.If(t == S.n, v, S.at(t)), S.k)


def slist_pop(S, i):
    return SList(S.n - 1, lambda t: S.at(z3.If(t < i, t, t + 1)), S.k)


class ConcatInfo:
    """Index maps of np.concatenate(L): result[j] = L[src(j)][j - off(src(j))].

    The maps depend only on the lengths (numpy fact, conformance-tested); two
    lists with pointwise equal lengths share them (see ``concat_larr``)."""

    def __init__(self, st, L):
        self.n = L.n
        self.alen = L.alen
        from .lib import sum_term
        # total length = sum of the lengths (same uninterpreted sum as np.sum)
        self.tot = sum_term(st, Arr(L.n, L.alen, 'int'))
        self.off = fresh_fn(['int'], 'int', 'off')
        self.src = fresh_fn(['int'], 'int', 'src')
        off, src, tot = self.off, self.src, self.tot
        i, j = qi('i'), qi('j')
        st.assume(off(0) == 0)
        st.assume(off(L.n) == tot)
        st.assume(tot >= 0)
        st.assume(QForAll([i], z3.Implies(
            z3.And(i >= 0, i < L.n), off(i + 1) == off(i) + L.alen(i)),
            patterns=[off(i)]))
        st.assume(QForAll([j], z3.Implies(
            z3.And(j >= 0, j < tot),
            z3.And(src(j) >= 0, src(j) < L.n, off(src(j)) <= j,
                   j < off(src(j)) + L.alen(src(j)))), patterns=[src(j)]))
        # position (i,k) of the list lands at off(i)+k
        k = qi('k')
        st.assume(QForAll([i, k], z3.Implies(
            z3.And(i >= 0, i < L.n, k >= 0, k < L.alen(i)),
            z3.And(off(i) + k < tot, src(off(i) + k) == i)),
            patterns=[src(off(i) + k)]))


def register_segmap(st, info):
    """np.concatenate(list of arrays) and np.repeat(a, reps) both lay out
    consecutive segments; the index maps (source segment, offset) are a function
    of the segment lengths only (numpy fact, conformance-tested)"""
    infos = st.ghost.get('concatinfo', [])
    for other in infos:
        same = z3.And(other.n == info.n, forall_idx(
            info.n, lambda i: other.alen(i) == info.alen(i)))
        j = qi('j')
        st.assume(z3.Implies(same, z3.And(
            other.tot == info.tot,
            z3.ForAll([j], z3.And(other.src(j) == info.src(j),
                                  other.off(j) == info.off(j))))))
    st.ghost['concatinfo'] = infos + [info]


def concat_larr(st, L):
    info = ConcatInfo(st, L)
    register_segmap(st, info)
    res = Arr(info.tot, lambda j: L.at(info.src(j), j - info.off(info.src(j))),
              L.k)
    return res, info
