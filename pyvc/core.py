"""Core of pyvc: symbolic values, heap/state, obligations.

Representation choices (all stated in DESIGN.md section 4):

* scalars are z3 terms wrapped in ``Sym`` (kind int/real/bool/fp or the name of an
  uninterpreted sort); Python constants stay Python constants as long as
  possible;
* every array is an immutable *functional* value ``Arr(n, fn, k)``: a length
  term and a Python closure from a z3 index term to the z3 element term. Element
  wise operations, concatenation, slicing, gathering compose closures and need no
  axioms; only genuinely new content (filter by mask, sort, havoc) introduces
  fresh uninterpreted functions plus defining axioms;
* everything mutable (arrays, Python lists, lists of arrays, objects) lives in a
  heap cell and is referenced through ``Ref`` so that numpy/Python aliasing is
  kept (``shell_t`` passed from ``self.shell_t`` and written through);
* a path of execution is a ``State`` (environment, heap, path condition);
  branches fork states.
"""
import itertools
import z3

class _Counter:
    def __init__(self):
        self.n = 0

    def next(self):
        self.n += 1
        return self.n


_counter = _Counter()


def uid(prefix='v'):
    return '{}!{}'.format(prefix, _counter.next())


def counter_get():
    return _counter.n


def counter_set(n):
    """Used when a statement is re-executed after a fork: the discarded attempt
    and the retry then create identically named symbols, so the branch
    condition recorded by the fork denotes the same term in the retry."""
    _counter.n = n


_sorts = {}


def sort_of(k):
    if k == 'int':
        return z3.IntSort()
    if k == 'real':
        return z3.RealSort()
    if k == 'bool':
        return z3.BoolSort()
    if k == 'fp':
        return z3.Float64()
    if k not in _sorts:
        _sorts[k] = z3.DeclareSort(k)
    return _sorts[k]


class OutsideSubset(Exception):
    def __init__(self, msg, node=None):
        Exception.__init__(self, msg)
        self.node = node


def spec(fn, *args):
    """Evaluate a contract callable (pre / post / invariant / step / result).
    A contract that cannot be evaluated on the code it is applied to (it
    names a local, a field or a value shape the code does not have) yields an
    obligation that is not discharged - never a crash of the checker."""
    try:
        r = fn(*args)
        if r is not None and not isinstance(r, (list, tuple)) and hasattr(
                r, '__iter__') and not hasattr(r, 'sort'):
            r = list(r)
        return r
    except (OutsideSubset, Raised):
        raise
    except Exception as e:      # noqa
        if type(e).__name__ == 'NeedSplit':
            raise
        raise OutsideSubset('the contract cannot be evaluated on this code '
                            '({}: {})'.format(type(e).__name__, str(e)[:120]))


class Raised(Exception):
    """A Python exception raised by the code under analysis on this path."""

    def __init__(self, exc):
        Exception.__init__(self, exc)
        self.exc = exc


class Sym:
    __slots__ = ('t', 'k')

    def __init__(self, t, k):
        self.t = t
        self.k = k

    def __repr__(self):
        return 'Sym<{}:{}>'.format(self.k, self.t)


class Arr:
    """1-D array value: length n (z3 Int term or python int), element closure."""
    __slots__ = ('n', 'fn', 'k', 'tag', 'view', 'facts')

    def __init__(self, n, fn, k, tag=None, view=False, facts=None):
        self.n = n if not isinstance(n, int) else z3.IntVal(n)
        self.fn = fn
        self.k = k
        self.tag = tag
        self.view = view
        # statically known consequences of how the array was built:
        #   distinct: elements pairwise different
        #   within:   boolean mask m such that every element e satisfies m[e]
        self.facts = facts or {}

    def at(self, i):
        if isinstance(i, int):
            i = z3.IntVal(i)
        return self.fn(i)

    def __repr__(self):
        return 'Arr<{} n={}>'.format(self.k, self.n)


class Arr2:
    """2-D array value with explicit coordinates (rows x cols)."""
    __slots__ = ('nr', 'nc', 'fn', 'k')

    def __init__(self, nr, nc, fn, k='real'):
        self.nr = nr if not isinstance(nr, int) else z3.IntVal(nr)
        self.nc = nc if not isinstance(nc, int) else z3.IntVal(nc)
        self.fn = fn
        self.k = k

    def at(self, r, c):
        if isinstance(r, int):
            r = z3.IntVal(r)
        if isinstance(c, int):
            c = z3.IntVal(c)
        return self.fn(r, c)


class LArr:
    """Python list of 1-D arrays with symbolic length (value semantics)."""
    __slots__ = ('n', 'alen', 'at', 'k')

    def __init__(self, n, alen, at, k):
        self.n = n if not isinstance(n, int) else z3.IntVal(n)
        self.alen = alen
        self.at = at
        self.k = k

    def elem(self, i):
        if isinstance(i, int):
            i = z3.IntVal(i)
        return Arr(self.alen(i), lambda j, i=i: self.at(i, j), self.k)


class FlatList:
    """A Python list of arrays that the code only appends to and finally
    concatenates: abstracted exactly by (number of arrays, concatenation)."""
    __slots__ = ('cnt', 'flat')

    def __init__(self, cnt, flat):
        self.cnt = cnt if not isinstance(cnt, int) else z3.IntVal(cnt)
        self.flat = flat


class SList:
    """Python list of atoms (objects of an uninterpreted sort), symbolic length."""
    __slots__ = ('n', 'fn', 'k')

    def __init__(self, n, fn, k):
        self.n = n if not isinstance(n, int) else z3.IntVal(n)
        self.fn = fn
        self.k = k

    def at(self, i):
        if isinstance(i, int):
            i = z3.IntVal(i)
        return self.fn(i)


class PyList:
    """Python list with a concrete number of (possibly symbolic) items."""
    __slots__ = ('items',)

    def __init__(self, items=None):
        self.items = list(items or [])


class ObjRec:
    """Instance of a repo class: class name + fields."""
    __slots__ = ('cls', 'fields')

    def __init__(self, cls, fields=None):
        self.cls = cls
        self.fields = dict(fields or {})


class Ref:
    __slots__ = ('oid',)

    def __init__(self, oid):
        self.oid = oid

    def __repr__(self):
        return 'Ref({})'.format(self.oid)

    def __eq__(self, o):
        return isinstance(o, Ref) and o.oid == self.oid

    def __hash__(self):
        return hash(('Ref', self.oid))


class ClassVal:
    """A repo class used as a value (``cls``, ``Ellipsoid``...)."""

    def __init__(self, name):
        self.name = name


class Opaque:
    """A value the executor carries around but never inspects."""

    def __init__(self, what):
        self.what = what

    def __repr__(self):
        return 'Opaque({})'.format(self.what)


class State:
    def __init__(self):
        self.env = {}
        self.heap = {}
        self.pc = []
        self.status = 'normal'   # normal | return | raise | break | continue
        self.retval = None
        self.exc = None
        self.trace = []          # branch decisions, for counter-model reports
        self.ghost = {}

    def copy(self):
        s = State()
        s.env = dict(self.env)
        h = {}
        for oid, cell in self.heap.items():
            if isinstance(cell, ObjRec):
                h[oid] = ObjRec(cell.cls, cell.fields)
            elif isinstance(cell, PyList):
                h[oid] = PyList(cell.items)
            else:
                h[oid] = cell
        s.heap = h
        s.pc = list(self.pc)
        s.status = self.status
        s.retval = self.retval
        s.exc = self.exc
        s.trace = list(self.trace)
        s.ghost = dict(self.ghost)
        return s

    # heap helpers
    def alloc(self, cell, hint='o'):
        oid = uid(hint)
        self.heap[oid] = cell
        return Ref(oid)

    def cell(self, ref):
        return self.heap[ref.oid]

    def set_cell(self, ref, cell):
        self.heap[ref.oid] = cell

    def assume(self, f):
        if f is True:
            return
        if isinstance(f, Sym):
            f = f.t
        self.pc.append(f)

    def getfield(self, ref, name):
        rec = self.heap[ref.oid]
        if name not in rec.fields:
            raise Raised('AttributeError')
        return rec.fields[name]

    def setfield(self, ref, name, v):
        self.heap[ref.oid].fields[name] = v


class Obligation:
    def __init__(self, name, hyps, goal, meta=None):
        self.name = name
        self.hyps = list(hyps)
        self.goal = goal
        self.meta = meta or {}


class Ctx:
    """Per-run collector of obligations and global axioms."""

    def __init__(self, prop, mode='real'):
        self.prop = prop
        self.mode = mode          # 'real' or 'fp'
        self.obligations = []
        self.axioms = []          # global background axioms (theory of uninterpreted fns)
        self.assumptions = []     # human readable list of assumed things
        self.prefix = ''
        self.line = None
        self.covers = []          # reachability checks (must be sat)
        self._names = {}

    def assume_tag(self, text):
        if text not in self.assumptions:
            self.assumptions.append(text)

    def oblige(self, st, clause, goal, **meta):
        """Record `goal` as an obligation under the path condition of `st`,
        then continue under the assumption that it holds."""
        if isinstance(goal, Sym):
            goal = goal.t
        if goal is True:
            goal = z3.BoolVal(True)
        if goal is False:
            goal = z3.BoolVal(False)
        name = '{}/{}{}'.format(self.prop, self.prefix, clause)
        k = self._names.get(name, 0)
        self._names[name] = k + 1
        if k:
            name = '{}#{}'.format(name, k)
        m = dict(meta)
        m.setdefault('line', self.line)
        m.setdefault('trace', list(st.trace))
        self.obligations.append(Obligation(name, st.pc, goal, m))
        st.pc.append(goal)

    def cover(self, st, clause):
        name = '{}/{}cover/{}'.format(self.prop, self.prefix, clause)
        self.covers.append(Obligation(name, st.pc, z3.BoolVal(False),
                                      dict(line=self.line, cover=True)))


# ---------------------------------------------------------------------------
# scalar helpers


def is_sym(v):
    return isinstance(v, Sym)


def kind_of(v):
    if isinstance(v, Sym):
        return v.k
    if isinstance(v, bool):
        return 'bool'
    if isinstance(v, int):
        return 'int'
    if isinstance(v, float):
        return 'real'
    raise OutsideSubset('no scalar kind for {!r}'.format(v))


def fresh(k, hint='x'):
    return Sym(z3.Const(uid(hint), sort_of(k)), k)


def fresh_fn(dom_kinds, k, hint='f'):
    f = z3.Function(uid(hint), *([sort_of(d) for d in dom_kinds] + [sort_of(k)]))
    return f


def I(x):
    """python int / Sym int / z3 int -> z3 Int term"""
    if isinstance(x, Sym):
        if x.k == 'bool':
            return z3.If(x.t, z3.IntVal(1), z3.IntVal(0))
        if x.k != 'int':
            raise OutsideSubset('expected int, got {}'.format(x.k))
        return x.t
    if isinstance(x, bool):
        return z3.IntVal(1 if x else 0)
    if isinstance(x, int):
        return z3.IntVal(x)
    if z3.is_expr(x):
        return x
    raise OutsideSubset('expected int, got {!r}'.format(x))


def B(x):
    if isinstance(x, Sym):
        if x.k == 'bool':
            return x.t
        if x.k == 'int':
            return x.t != 0
        raise OutsideSubset('truth value of {}'.format(x.k))
    if isinstance(x, bool):
        return z3.BoolVal(x)
    if z3.is_expr(x):
        return x
    raise OutsideSubset('expected bool, got {!r}'.format(x))


def simp(t):
    return z3.simplify(t)


def concrete_int(x):
    """Return python int if x is (or simplifies to) a literal, else None."""
    if isinstance(x, bool):
        return int(x)
    if isinstance(x, int):
        return x
    if isinstance(x, Sym):
        x = x.t
    if z3.is_expr(x):
        s = z3.simplify(x)
        if z3.is_int_value(s):
            return s.as_long()
    return None


def concrete_bool(x):
    if isinstance(x, bool):
        return x
    if isinstance(x, Sym):
        x = x.t
    if z3.is_expr(x):
        s = z3.simplify(x)
        if z3.is_true(s):
            return True
        if z3.is_false(s):
            return False
    return None
