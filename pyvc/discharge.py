"""Discharge obligations: z3 (in-process API in worker processes) then cvc5 CLI.

Verdicts per obligation: 'discharged' (unsat by some back end), 'refuted'
(some back end answered sat: a counter-model exists in the theory), or
'unknown' (timeout / incomplete). `unknown` is never reported as refuted.
"""
import multiprocessing as mp
import os
import subprocess
import tempfile
import time

import z3

Z3_TIMEOUT_MS = int(os.environ.get('PYVC_Z3_TIMEOUT_MS', '20000'))
CVC5_TIMEOUT_MS = int(os.environ.get('PYVC_CVC5_TIMEOUT_MS', '30000'))
CVC5 = '/usr/bin/cvc5'


def to_smt2(ob, extra_axioms=()):
    s = z3.Solver()
    for h in ob.hyps:
        s.add(h)
    for a in extra_axioms:
        s.add(a)
    s.add(z3.Not(ob.goal))
    return s.to_smt2()


def _run_z3(smt, timeout_ms, seed=0):
    t0 = time.time()
    s = z3.Solver()
    s.set('timeout', timeout_ms)
    s.set('random_seed', seed)
    try:
        s.from_string(smt)
        r = s.check()
    except z3.Z3Exception as e:
        return 'error', time.time() - t0, str(e), None
    model = None
    reason = ''
    if r == z3.sat:
        try:
            m = s.model()
            model = {}
            for d in m.decls():
                if d.arity() == 0:
                    model[d.name()] = str(m[d])
            model = dict(sorted(model.items())[:60])
        except z3.Z3Exception:
            model = None
    if r == z3.unknown:
        reason = s.reason_unknown()
    return str(r), time.time() - t0, reason, model


def _run_cvc5(smt, timeout_ms):
    t0 = time.time()
    logic = 'HO_ALL' if '(lambda ' in smt else 'ALL'
    text = '(set-logic {})\n'.format(logic) + smt
    with tempfile.NamedTemporaryFile('w', suffix='.smt2', delete=False) as f:
        f.write(text)
        path = f.name
    try:
        p = subprocess.run(
            [CVC5, '--tlimit={}'.format(timeout_ms), '--lang=smt2', path],
            capture_output=True, text=True, timeout=timeout_ms / 1000 + 10)
        out = (p.stdout or '').strip().splitlines()
        res = out[0] if out else 'unknown'
        if res not in ('sat', 'unsat', 'unknown'):
            res = 'error'
        return res, time.time() - t0, (p.stderr or '')[:300], None
    except subprocess.TimeoutExpired:
        return 'unknown', time.time() - t0, 'timeout', None
    finally:
        os.unlink(path)


def _run_ground(smt, timeout_ms):
    from . import ground
    try:
        r, t, reason, model, stats = ground.ground_check(smt, timeout_ms)
    except z3.Z3Exception as e:
        return 'error', 0.0, str(e), None, {}
    return r, t, reason, model, stats


def _work(job):
    name, smt, use_cvc5_always, z3_to, cvc5_to = job
    out = dict(name=name, backends=[])
    fp = 'FloatingPoint' in smt or 'Float64' in smt
    if fp:
        # quantifiers + binary64: instantiate first, the QF query is easy
        r, t, reason, model, stats = _run_ground(smt, z3_to)
        out['backends'].append(dict(solver='z3-ground', result=r,
                                    time_s=round(t, 3), reason=reason,
                                    stats=stats))
        if r == 'unsat':
            out['verdict'], out['by'] = 'discharged', 'z3-ground'
            return out
        if r == 'sat':
            out['verdict'], out['by'] = 'refuted', 'z3-ground'
            out['model'] = model
            return out
    quick_to = min(4000, z3_to)
    r, t, reason, model = _run_z3(smt, quick_to)
    out['backends'].append(dict(solver='z3', result=r, time_s=round(t, 3),
                                reason=reason))
    if r == 'unknown' and not fp:
        # cheap second opinion before spending the full z3 budget
        r3, t3, reason3, model3, stats = _run_ground(smt, z3_to)
        out['backends'].append(dict(solver='z3-ground', result=r3,
                                    time_s=round(t3, 3), reason=reason3,
                                    stats=stats))
        if r3 == 'unsat':
            out['verdict'], out['by'] = 'discharged', 'z3-ground'
            if not use_cvc5_always:
                return out
        cand = model3 if r3 == 'sat' else None
        # a model of the instantiated query is only a candidate (instances are
        # consequences, not the whole theory): it never ends the search
        if r3 in ('unknown', 'sat') and z3_to > quick_to:
            r, t, reason, model = _run_z3(smt, z3_to)
            out['backends'].append(dict(solver='z3', result=r,
                                        time_s=round(t, 3), reason=reason))
    verdict = {'unsat': 'discharged', 'sat': 'refuted'}.get(r, 'unknown')
    by = 'z3' if verdict != 'unknown' else None
    if verdict == 'refuted':
        out['model'] = model
    if verdict == 'unknown' and not fp and locals().get('cand') is not None:
        verdict, by = 'refuted', 'z3-ground'
        out['model'] = cand
    if verdict == 'unknown' or use_cvc5_always:
        r2, t2, reason2, _ = _run_cvc5(smt, cvc5_to)
        out['backends'].append(dict(solver='cvc5', result=r2,
                                    time_s=round(t2, 3), reason=reason2))
        if verdict == 'unknown' and r2 == 'unsat':
            verdict, by = 'discharged', 'cvc5'
        elif verdict == 'unknown' and r2 == 'sat':
            if out.get('verdict') == 'discharged':
                out['disagreement'] = True
            verdict, by = 'refuted', 'cvc5'
        elif verdict != 'unknown' and r2 in ('sat', 'unsat') and \
                {'unsat': 'discharged', 'sat': 'refuted'}[r2] != verdict:
            out['disagreement'] = True
    if verdict == 'unknown' and out.get('verdict') == 'discharged':
        verdict, by = 'discharged', out['by']
    out['verdict'] = verdict
    out['by'] = by
    return out


def to_smt2_cover(c, extra_axioms=()):
    s = z3.Solver()
    for h in c.hyps:
        s.add(h)
    for a in extra_axioms:
        s.add(a)
    return s.to_smt2()


def _cover_work(job):
    name, smt = job
    s = z3.Solver()
    s.set('timeout', 3000)
    try:
        s.from_string(smt)
        r = str(s.check())
    except z3.Z3Exception:
        r = 'error'
    return dict(name=name, result=r)


def check_covers_smt(jobs, procs=16):
    if not jobs:
        return []
    ctx = mp.get_context('fork')
    with ctx.Pool(min(procs, len(jobs))) as pool:
        return pool.map(_cover_work, jobs, chunksize=1)


def discharge_all(obligations, axioms=(), cross_check=False, procs=None,
                  z3_timeout_ms=None, cvc5_timeout_ms=None):
    jobs = []
    for ob in obligations:
        smt = ob.smt if hasattr(ob, 'smt') else to_smt2(ob, axioms)
        jobs.append((ob.name, smt, cross_check,
                     z3_timeout_ms or Z3_TIMEOUT_MS,
                     cvc5_timeout_ms or CVC5_TIMEOUT_MS))
    procs = procs or min(16, max(1, len(jobs)))
    if not jobs:
        return []
    if procs == 1 or len(jobs) == 1:
        return _retry_unknown(jobs, [_work(j) for j in jobs])
    ctx = mp.get_context('fork')
    with ctx.Pool(procs) as pool:
        results = pool.map(_work, jobs, chunksize=1)
    return _retry_unknown(jobs, results)


RETRY_MAX = 12


def _retry_one(job):
    """second attempt for an obligation nobody decided: other seeds, longer
    budgets, one fresh process per obligation, little competition for the
    cores. z3's quantifier instantiation is sensitive to the state of the
    process it runs in and to the load of the machine; a verdict must not be"""
    name, smt, cc, z3_to, cvc5_to = job
    tried = []
    for (solver, arg) in (('z3', 1), ('z3', 2), ('ground', 2 * z3_to)):
        if solver == 'z3':
            r, t, reason, model = _run_z3(smt, z3_to, seed=arg)
            stats = None
        else:
            r, t, reason, model, stats = _run_ground(smt, arg)
        tried.append(dict(solver='retry:' + solver, result=r,
                          time_s=round(t, 3), reason=reason))
        if r == 'unsat':
            return dict(name=name, backends=tried, verdict='discharged',
                        by='retry:' + solver)
        if r == 'sat' and solver == 'z3':
            return dict(name=name, backends=tried, verdict='refuted',
                        by='retry:z3', model=model)
    return dict(name=name, backends=tried, verdict='unknown', by=None)


def _retry_unknown(jobs, results):
    idx = [i for i, r in enumerate(results) if r['verdict'] == 'unknown' or
           (r['verdict'] == 'refuted' and r.get('by') == 'z3-ground')]
    if not idx or len(idx) > RETRY_MAX:
        return results
    ctx = mp.get_context('fork')
    with ctx.Pool(min(4, len(idx)), maxtasksperchild=1) as pool:
        again = pool.map(_retry_one, [jobs[i] for i in idx], chunksize=1)
    for i, a in zip(idx, again):
        r = results[i]
        r['backends'] = r['backends'] + a['backends']
        if a['verdict'] != 'unknown':
            r['verdict'], r['by'] = a['verdict'], a['by']
            if a.get('model') is not None:
                r['model'] = a['model']
    return results


def check_covers(covers, axioms=(), timeout_ms=5000):
    """Reachability guards: hyps must be satisfiable (sat or unknown is ok;
    unsat means the precondition/path is vacuous)."""
    res = []
    for c in covers:
        s = z3.Solver()
        s.set('timeout', timeout_ms)
        for h in c.hyps:
            s.add(h)
        for a in axioms:
            s.add(a)
        r = s.check()
        res.append(dict(name=c.name, result=str(r)))
    return res
