"""Run one property check: build obligations, discharge, report, write evidence."""
import importlib
import json
import os
import re
import sys
import time
import traceback

from .core import Ctx
from .frontend import Frontend, REPO
from . import discharge
from . import npmodel

ROOT = os.path.dirname(os.path.dirname(os.path.abspath(__file__)))
# runs against a scratch copy of the repository (mutation self-test, seeded
# changes) must not overwrite the evidence / replays of the real tree
OUT = ROOT if os.path.realpath(REPO) == '/repo' else os.path.join(
    ROOT, 'scratch', 'alt_' + os.path.basename(os.path.realpath(REPO)))

TRUSTED_BASE = [
    'pyvc (this repository /verif/pyvc): AST interpreter + VC generator written '
    'for this task; guarded by canaries, vacuity covers and the mutation '
    'self-test (DESIGN.md 6)',
    'library models in pyvc/lib.py, pyvc/npmodel.py, pyvc/arrays.py: assumed '
    'contracts of numpy / scipy / numpy.random.Generator / h5py operations '
    '(conformance-tested in the thorough tier, not proved)',
    'floating point treated as mathematical reals except where a check says '
    'binary64 (C16 range); integers are mathematical (no int64 overflow)',
    'IEEE specials -inf/nan modelled as distinguished real constants; '
    'log/exp/logsumexp uninterpreted',
    'termination is not proved; no concurrency inside one object',
    'z3 5.1.0 and cvc5 1.0.3 soundness; CPython 3.12 for replays',
]

DROPPED = [
    'docstrings and comments',
    'with threadpool_limits(...) and @threadpool_limits.wrap: transparent',
    'dtype= arguments / astype(int): element sorts fixed by the theory',
    'warn(...)/print(...): arguments evaluated, no effect on state',
]


def load_known_findings():
    p = os.path.join(ROOT, 'known_findings.json')
    if not os.path.exists(p):
        return []
    with open(p) as f:
        return json.load(f).get('entries', [])


def sanitize(name):
    return re.sub(r'[^A-Za-z0-9_.@#-]+', '_', name)[:150]


def _build_unit(args):
    """worker: build the obligations of one unit and serialise them"""
    prop, tier, unit = args
    import importlib as _il
    mod = _il.import_module('contracts.' + prop)
    fe = Frontend()
    cx = Ctx(prop)
    info = dict(functions=[], bounded=[], notes=[], lemmas=0)
    t0 = time.time()
    try:
        if fe.errors:
            raise RuntimeError('cannot parse repo: {}'.format(fe.errors))
        if unit is None:
            mod.build(cx, fe, tier, info)
        else:
            mod.build(cx, fe, tier, info, only=unit)
    except Exception:
        return dict(unit=unit, error=traceback.format_exc())
    obs = [(o.name, discharge.to_smt2(o, cx.axioms), _clean(o.meta))
           for o in cx.obligations]
    covs = [(c.name, discharge.to_smt2_cover(c, cx.axioms)) for c in cx.covers]
    info['branch_cov'] = sorted(getattr(mod, '_branch_cov', lambda: [])())
    info['branch_all'] = sorted(getattr(mod, '_branch_all', lambda: [])())
    return dict(unit=unit, obligations=obs, covers=covs, info=info,
                assumptions=list(cx.assumptions), build_s=time.time() - t0,
                lib=sorted(npmodel.LIB_USED))


def _clean(meta):
    out = {}
    for k, v in meta.items():
        if isinstance(v, (str, int, float, bool, type(None))):
            out[k] = v
        elif isinstance(v, (list, tuple)):
            out[k] = [str(x) for x in v]
    return out


class _Ob:
    def __init__(self, name, smt, meta):
        self.name = name
        self.smt = smt
        self.meta = meta


def run_property(prop, tier='quick', seed=0):
    t0 = time.time()
    mod = importlib.import_module('contracts.' + prop)
    units = getattr(mod, 'UNITS', None)
    jobs = [(prop, tier, u) for u in (units or [None])]
    import multiprocessing as mp
    if len(jobs) > 1:
        with mp.get_context('fork').Pool(min(16, len(jobs))) as pool:
            built = pool.map(_build_unit, jobs, chunksize=1)
    else:
        built = [_build_unit(jobs[0])]
    cx = Ctx(prop)
    info = dict(functions=[], bounded=[], notes=[], lemmas=0, assumed=[],
                assumptions=[], inlined=[], build_s={})
    error = None
    obs = []
    cov_jobs = []
    seen_names = {}
    for b in built:
        if b.get('error'):
            error = b['error']
            break
        for (name, smt, meta) in b['obligations']:
            k = seen_names.get(name, 0)
            seen_names[name] = k + 1
            if k:
                name = '{}~{}'.format(name, k)
            obs.append(_Ob(name, smt, meta))
        cov_jobs.extend(b['covers'])
        bi = b['info']
        for f in bi.get('functions', []):
            if not any(x['qualname'] == f['qualname']
                       for x in info['functions']):
                info['functions'].append(f)
        for key in ('assumed', 'assumptions', 'inlined', 'notes',
                    'trusted_extra'):
            for x in bi.get(key, []):
                if x not in info.setdefault(key, []):
                    info[key].append(x)
        info.setdefault('branch_cov', set()).update(
            tuple(x) for x in bi.get('branch_cov', []))
        info.setdefault('branch_all', set()).update(
            tuple(x) for x in bi.get('branch_all', []))
        for x in b['assumptions']:
            cx.assume_tag(x)
        info['build_s'][str(b['unit'])] = round(b['build_s'], 1)
        npmodel.LIB_USED.update(b['lib'])
    if error is not None:
        print('CHECKER-ERROR property={}\n{}'.format(prop, error))
        write_evidence(prop, tier, seed, cx, [], [], info, time.time() - t0,
                       error=error)
        return 3
    # branch coverage of the symbolic execution: a branch of a function under
    # contract that no path takes means a pruned (possibly vacuous) path
    dead_ok = set(getattr(mod, 'DEAD_BRANCHES', ()))
    # a function that left the supported subset is reported through its
    # `in_subset` obligation (a VIOLATION), not through the vacuity guard
    left_subset = set()
    for o in obs:
        if o.meta.get('kind') == 'in_subset':
            left_subset.add(o.name.split('/in_subset')[0].split('/', 1)[1]
                            .split('[')[0])
    unc = sorted(x for x in info.get('branch_all', set())
                 - info.get('branch_cov', set())
                 if not any(x[0].endswith('.' + d[0]) and x[1] == d[1]
                            and x[2] == d[2] for d in dead_ok)
                 and x[0] in getattr(mod, 'BRANCH_COVERED_FUNCTIONS', ())
                 and not any(x[0].endswith(ls) for ls in left_subset))
    info['uncovered_branches'] = ['{}: `{}` -> {}'.format(*x) for x in unc]
    info['branch_cov'] = len(info.get('branch_cov', ()))
    info['branch_all'] = len(info.get('branch_all', ()))
    if unc:
        print('CHECKER-ERROR property={} branches never executed '
              'symbolically (vacuity guard): {}'.format(
                  prop, info['uncovered_branches']))
        write_evidence(prop, tier, seed, cx, [], [], info, time.time() - t0,
                       error='uncovered branches')
        return 3
    floor = getattr(mod, 'OBLIGATION_FLOOR', 1)
    if len(obs) < floor and not left_subset:
        print('CHECKER-ERROR property={} only {} obligations generated '
              '(floor {}): vacuity guard'.format(prop, len(obs), floor))
        write_evidence(prop, tier, seed, cx, [], [], info, time.time() - t0,
                       error='obligation floor')
        return 3
    z3_to = getattr(mod, 'Z3_TIMEOUT_MS', None)
    results = discharge.discharge_all(
        obs, cx.axioms, cross_check=(tier == 'thorough'),
        z3_timeout_ms=z3_to)
    covers = discharge.check_covers_smt(cov_jobs)
    # a vacuous precondition is an error; a dead exit path is not, as long as
    # every function keeps at least one exit that is not refuted
    vac = [c for c in covers if c['result'] == 'unsat' and
           '/cover/pre_satisfiable' in c['name']]
    byfn = {}
    for c in covers:
        if '/cover/exit_reachable' in c['name']:
            fn = c['name'].split('/cover/')[0]
            byfn.setdefault(fn, []).append(c['result'])
    for fn, rs in byfn.items():
        if all(r == 'unsat' for r in rs):
            vac.append(dict(name=fn + '/cover/all_exits_unreachable'))
    rc = 0
    if any(r.get('disagreement') for r in results):
        print('CHECKER-ERROR property={} solver disagreement: {}'.format(
            prop, [r['name'] for r in results if r.get('disagreement')]))
        rc = 3
    # expected-refuted canaries
    meta = {o.name: o.meta for o in obs}
    failed = []
    for r in results:
        m = meta[r['name']]
        r['kind'] = m.get('kind')
        r['line'] = m.get('line')
        if m.get('reason'):
            r['reason'] = m['reason']
        if m.get('canary'):
            if r['verdict'] == 'discharged':
                print('CHECKER-ERROR property={} canary {} was proved: the '
                      'context is inconsistent'.format(prop, r['name']))
                rc = 3
            continue
        if r['verdict'] != 'discharged':
            failed.append(r)
    # an obligation is assumed once it has been recorded; after one that does
    # not hold the rest of its path is vacuous by construction: that is part
    # of the reported violation, not a defect of the checker
    vac = [c for c in vac if not any(
        r['name'].startswith(c['name'].split('/cover/')[0] + '/')
        for r in failed)]
    if vac:
        print('CHECKER-ERROR property={} vacuous precondition/path: {}'.format(
            prop, [c['name'] for c in vac]))
        rc = 3
    # bounded / runtime legs
    bounded = []
    if hasattr(mod, 'bounded'):
        try:
            bounded = mod.bounded(tier, seed) or []
        except Exception:
            print('CHECKER-ERROR property={} bounded leg crashed\n{}'.format(
                prop, traceback.format_exc()))
            rc = 3
    info['bounded'] = bounded
    violations = []
    known = load_known_findings()
    for b in bounded:
        if b.get('violations'):
            for v in b['violations']:
                violations.append(dict(name=b['name'] + '/' + v.get('id', ''),
                                       verdict='bounded-violation',
                                       replay=v, found=True))
    for r in failed:
        rep = None
        if hasattr(mod, 'replay'):
            try:
                rep = mod.replay(r, tier, seed)
            except Exception:
                rep = dict(found=False, error=traceback.format_exc())
        violations.append(dict(name=r['name'], verdict=r['verdict'],
                               result=r, replay=rep,
                               found=bool(rep and rep.get('found'))))
    n_viol = 0
    os.makedirs(os.path.join(OUT, 'replays', prop), exist_ok=True)
    for v in violations:
        match = None
        for k in known:
            if k.get('property') == prop and k.get('status') == 'finding' and \
                    re.search(k['obligation'], v['name']):
                w = k.get('witness_match')
                if w and not re.search(w, json.dumps(v.get('replay'),
                                                     default=str)):
                    continue
                match = k
        if match is not None:
            print('KNOWN-FINDING: property={} {}'.format(prop, match['what']))
            continue
        n_viol += 1
        path = os.path.join(OUT, 'replays', prop, sanitize(v['name']) + '.json')
        with open(path, 'w') as f:
            json.dump(dict(property=prop, obligation=v['name'],
                           verdict=v['verdict'], solver=v.get('result'),
                           replay=v.get('replay'),
                           repo=REPO), f, indent=1, default=str)
        tail = '' if v['found'] else ' no-failing-input-found'
        print('VIOLATION property={} replay={}{}'.format(prop, path, tail))
    write_evidence(prop, tier, seed, cx, results, covers, info,
                   time.time() - t0, violations=n_viol)
    if rc == 3:
        return 3
    return 1 if n_viol else 0


def write_evidence(prop, tier, seed, cx, results, covers, info, wall,
                   violations=0, error=None):
    n = len([r for r in results if not r.get('canary')])
    disch = len([r for r in results if r['verdict'] == 'discharged'])
    by = {}
    tz3 = tcvc = 0.0
    for r in results:
        by[r.get('by') or 'none'] = by.get(r.get('by') or 'none', 0) + 1
        for b in r['backends']:
            if b['solver'].startswith('z3'):
                tz3 += b['time_s']
            else:
                tcvc += b['time_s']
    samples = []
    for r in results[:400]:
        samples.append(dict(obligation=r['name'], kind=r.get('kind'),
                            line=r.get('line'), verdict=r['verdict'],
                            backend=r.get('by'),
                            solver_s=sum(b['time_s'] for b in r['backends'])))
    if not samples:
        samples = [dict(note='no obligations generated', error=error)]
    cov = dict(
        obligations=max(n, 0), discharged=disch,
        checker_cmd='python3-vt check.py {} --tier {}'.format(prop, tier),
        trusted_base=TRUSTED_BASE + info.get('trusted_extra', []),
        samples=samples,
        functions_under_contract=info.get('functions', []),
        functions_assumed_contract=info.get('assumed', []),
        inlined_callees=info.get('inlined', []),
        discharged_by=by,
        solver_time_s=dict(z3=round(tz3, 2), cvc5=round(tcvc, 2)),
        vacuity=dict(covers=len(covers),
                     satisfiable=len([c for c in covers
                                      if c['result'] != 'unsat']),
                     canaries=info.get('canaries', 0)),
        bounded=info.get('bounded', []),
        library_models_used=sorted(npmodel.LIB_USED),
        dropped_by_extraction=DROPPED,
        notes=info.get('notes', []),
        branch_coverage=dict(executed=info.get('branch_cov'),
                             total=info.get('branch_all'),
                             uncovered=info.get('uncovered_branches', [])),
        build_s=info.get('build_s'),
    )
    if error:
        cov['error'] = error[-2000:]
    ev = dict(property_id=prop, tier=tier, seed=int(seed), level='proof',
              coverage=cov,
              assumptions=list(cx.assumptions) + info.get('assumptions', []),
              wall_s=round(wall, 2), violations=violations)
    os.makedirs(os.path.join(OUT, 'evidence'), exist_ok=True)
    with open(os.path.join(OUT, 'evidence', prop + '.json'), 'w') as f:
        json.dump(ev, f, indent=1, default=str)
