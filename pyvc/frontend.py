"""Front end: read the real nautilus sources from /repo on every run.

Nothing is imported and nothing is cached: the files are parsed with ``ast`` at
the moment a check starts. Functions are addressed by qualified name
(``nautilus.sampler.Sampler.sample_shell``). For every function handed to the
executor the exact source segment, line span and sha256 are recorded so the
evidence can show that the verified text is the text on disk.
"""
import ast
import hashlib
import os

REPO = os.environ.get('NAUTILUS_REPO', '/repo')

MODULES = {
    'nautilus.sampler': 'nautilus/sampler.py',
    'nautilus.prior': 'nautilus/prior.py',
    'nautilus.pool': 'nautilus/pool.py',
    'nautilus.neural': 'nautilus/neural.py',
    'nautilus.bounds.basic': 'nautilus/bounds/basic.py',
    'nautilus.bounds.union': 'nautilus/bounds/union.py',
    'nautilus.bounds.nautilus': 'nautilus/bounds/nautilus.py',
    'nautilus.bounds.neural': 'nautilus/bounds/neural.py',
    'nautilus.bounds.periodic': 'nautilus/bounds/periodic.py',
}


class FunctionSource:
    def __init__(self, qualname, node, path, text, kind):
        self.qualname = qualname
        self.node = node
        self.path = path
        self.text = text
        self.kind = kind  # 'function' | 'method' | 'classmethod' | 'getter' | 'setter'
        self.lines = (node.lineno, node.end_lineno)
        self.sha256 = hashlib.sha256(text.encode()).hexdigest()

    def describe(self):
        return dict(qualname=self.qualname, file=self.path,
                    lines=list(self.lines), sha256=self.sha256, kind=self.kind)


def binding_order(fnode):
    """names bound inside a function, in source order of their first binding
    (parameters first)"""
    out = []

    def add(n):
        if n not in out:
            out.append(n)
    a = fnode.args
    for x in a.posonlyargs + a.args + a.kwonlyargs:
        add(x.arg)
    if a.vararg:
        add(a.vararg.arg)
    if a.kwarg:
        add(a.kwarg.arg)

    def targets(t):
        if isinstance(t, ast.Name):
            add(t.id)
        elif isinstance(t, (ast.Tuple, ast.List)):
            for e in t.elts:
                targets(e)
        elif isinstance(t, ast.Starred):
            targets(t.value)

    def walk(stmts):
        for st in stmts:
            if isinstance(st, (ast.FunctionDef, ast.ClassDef, ast.Lambda)):
                continue
            if isinstance(st, ast.Assign):
                for t in st.targets:
                    targets(t)
            elif isinstance(st, (ast.AugAssign, ast.AnnAssign)):
                targets(st.target)
            elif isinstance(st, (ast.For, ast.AsyncFor)):
                targets(st.target)
            elif isinstance(st, (ast.With, ast.AsyncWith)):
                for it in st.items:
                    if it.optional_vars is not None:
                        targets(it.optional_vars)
            for fld in ('body', 'orelse', 'finalbody'):
                sub = getattr(st, fld, None)
                if isinstance(sub, list):
                    walk(sub)
            for h in getattr(st, 'handlers', []) or []:
                if h.name:
                    add(h.name)
                walk(h.body)
    walk(fnode.body)
    return out


_REF_LOCALS = None


def reference_locals():
    """binding order of the locals of every function at the commit the
    contracts were written against (reference/locals.json, committed)"""
    global _REF_LOCALS
    if _REF_LOCALS is None:
        import json
        path = os.path.join(os.path.dirname(os.path.dirname(
            os.path.abspath(__file__))), 'reference', 'locals.json')
        try:
            _REF_LOCALS = json.load(open(path))
        except (OSError, ValueError):
            _REF_LOCALS = {}
    return _REF_LOCALS


class Frontend:
    def local_aliases(self, qualname):
        """{current local name: name the contracts use} when the function
        differs from the reference only by a consistent renaming of locals
        (same number of bindings in the same order); {} otherwise"""
        fs = self.functions.get(qualname)
        ref = reference_locals().get(qualname)
        if fs is None or not ref:
            return {}
        cur = binding_order(fs.node)
        if len(cur) != len(ref) or cur == ref:
            return {}
        out = {}
        for c, r in zip(cur, ref):
            if c != r:
                if r in cur or c in ref:
                    return {}        # not a plain renaming
                out[c] = r
        return out

    def __init__(self, repo=None):
        self.repo = repo or REPO
        self.functions = {}
        self.module_src = {}
        self.errors = []
        for mod, rel in MODULES.items():
            path = os.path.join(self.repo, rel)
            try:
                with open(path) as f:
                    src = f.read()
                tree = ast.parse(src, filename=path)
            except (OSError, SyntaxError) as e:
                self.errors.append('{}: {}'.format(rel, e))
                continue
            self.module_src[mod] = src
            self._index(mod, rel, src, tree)

    def _kind(self, node, in_class):
        if not in_class:
            return 'function'
        for d in node.decorator_list:
            if isinstance(d, ast.Name) and d.id == 'classmethod':
                return 'classmethod'
            if isinstance(d, ast.Name) and d.id == 'property':
                return 'getter'
            if isinstance(d, ast.Attribute) and d.attr == 'setter':
                return 'setter'
        return 'method'

    def _index(self, mod, rel, src, tree):
        for node in tree.body:
            if isinstance(node, ast.FunctionDef):
                self._add(mod + '.' + node.name, node, rel, src, False)
            elif isinstance(node, ast.ClassDef):
                for sub in node.body:
                    if isinstance(sub, ast.FunctionDef):
                        kind = self._kind(sub, True)
                        name = sub.name + ('.setter' if kind == 'setter' else '')
                        self._add(mod + '.' + node.name + '.' + name, sub, rel,
                                  src, True)

    def _add(self, qualname, node, rel, src, in_class):
        text = ast.get_source_segment(src, node)
        self.functions[qualname] = FunctionSource(
            qualname, node, rel, text, self._kind(node, in_class))

    def get(self, qualname):
        if qualname not in self.functions:
            raise KeyError('function {} not found in {}'.format(
                qualname, self.repo))
        return self.functions[qualname]


def loops_of(fnode):
    """Loops of a function in source order (ordinal -> node)."""
    out = []

    class V(ast.NodeVisitor):
        def visit_For(self, n):
            out.append(n)
            self.generic_visit(n)

        def visit_While(self, n):
            out.append(n)
            self.generic_visit(n)

        def visit_FunctionDef(self, n):
            if n is fnode:
                self.generic_visit(n)

        def visit_Lambda(self, n):
            pass

    V().visit(fnode)
    out.sort(key=lambda n: (n.lineno, n.col_offset))
    return out
