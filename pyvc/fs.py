"""Ghost file system for crash reasoning (DESIGN.md 7, C06).

disk : path -> ABSENT | OLD (complete state present at entry) | NEW (complete
new state) | TORN (being written / partially written) | COPY (complete copy
of the entry state under another name).
A process kill can happen between any two statements and inside any call; every
non-atomic primitive sets TORN as its FIRST effect, so checking the invariant
after each event covers the instants inside the primitive too. Atomic
primitives: unlink, os.replace (POSIX rename).
"""
import z3

from .core import Opaque, OutsideSubset, Raised, Ref
from .symexec import PyCallable

ABSENT, OLD, NEW, TORN, COPY = 'ABSENT', 'OLD', 'NEW', 'TORN', 'COPY'


class PathVal:
    def __init__(self, key):
        self.key = key      # 'P' = the checkpoint path, else a derived name


def disk(st):
    return dict(st.ghost.get('disk', {}))


def event(ex, st, what, node):
    """record an event and check the crash invariant right after it"""
    if st.ghost.get('fs_silent'):
        return
    d = disk(st)
    init = st.ghost['disk_initial']
    p = d.get('P', ABSENT)
    line = getattr(node, 'lineno', ex.cx.line)
    ok = (p == init) or (p == NEW)
    if init != ABSENT and p == ABSENT:
        ok = False
    st.ghost['fs_events'] = st.ghost.get('fs_events', ()) + (
        (line, what, dict(d)),)
    ex.cx.oblige(st, 'crash_invariant@L{}:{}'.format(line, what),
                 z3.BoolVal(ok), kind='crash', disk=str(d), initial=init)


def install(reg, initial):
    def Path(ex, st, args, kw, node):
        v = args[0]
        if isinstance(v, PathVal):
            return v
        return PathVal('P')
    reg.lib['Path'] = Path
    from .symexec import Lib
    reg.globals['Path'] = Lib('Path')
    reg.globals['os'] = Lib('os')
    reg.globals['shutil'] = Lib('shutil')
    prev_getattr = reg.getattr_hook

    def getattr_hook(ex, st, o, d, name, node):
        if isinstance(d, PathVal):
            if name == 'exists':
                return PyCallable(lambda e, s, a, k, n, d=d: disk(s).get(
                    d.key, ABSENT) != ABSENT)
            if name == 'unlink':
                def unlink(e, s, a, k, n, d=d):
                    dd = disk(s)
                    dd[d.key] = ABSENT
                    s.ghost['disk'] = dd
                    event(e, s, 'unlink({})'.format(d.key), n)
                return PyCallable(unlink)
            if name == 'parent':
                return Opaque('sink:dir')
            if name in ('suffix',):
                return Opaque('sink:suffix')
            if name in ('name', 'stem'):
                return ('pathpart', d.key, name)
            if name in ('with_name', 'with_suffix'):
                return PyCallable(lambda e, s, a, k, n, d=d: PathVal(
                    d.key + '.derived'))
        if prev_getattr is not None:
            return prev_getattr(ex, st, o, d, name, node)
        return NotImplemented
    reg.getattr_hook = getattr_hook
    prev_binop = reg.binop_hook

    def binop_hook(ex, st, op, a, b):
        if isinstance(a, tuple) and a and a[0] == 'pathpart':
            return ('pathpart', a[1], 'derived')
        if prev_binop is not None:
            return prev_binop(ex, st, op, a, b)
        return NotImplemented
    reg.binop_hook = binop_hook

    def key_of(v):
        if isinstance(v, PathVal):
            return v.key
        return 'P'      # Path(filepath) / str path of the checkpoint

    def os_replace(ex, st, args, kw, node):
        a, b = key_of(args[0]), key_of(args[1])
        dd = disk(st)
        dd[b] = dd.get(a, ABSENT)
        dd[a] = ABSENT
        if dd[b] == ABSENT:
            raise Raised('FileNotFoundError')
        st.ghost['disk'] = dd
        event(ex, st, 'replace({},{})'.format(a, b), node)
    reg.lib['os.replace'] = os_replace
    reg.lib['os.rename'] = os_replace

    def copyfile(ex, st, args, kw, node):
        a, b = key_of(args[0]), key_of(args[1])
        dd = disk(st)
        if dd.get(a, ABSENT) == ABSENT:
            raise Raised('FileNotFoundError')
        dd[b] = TORN
        st.ghost['disk'] = dict(dd)
        event(ex, st, 'copyfile:start({},{})'.format(a, b), node)
        dd[b] = COPY if dd[a] == OLD else dd[a]
        st.ghost['disk'] = dd
        event(ex, st, 'copyfile:done({},{})'.format(a, b), node)
    reg.lib['shutil.copyfile'] = copyfile
    reg.lib['shutil.copy'] = copyfile
    reg.globals['copyfile'] = Lib('shutil.copyfile')
    base_file = reg.lib['h5py.File']

    def h5file(ex, st, args, kw, node):
        k = key_of(args[0])
        mode = args[1] if len(args) > 1 else 'r'
        dd = disk(st)
        cur = dd.get(k, ABSENT)
        if mode == 'x' and cur != ABSENT:
            raise Raised('FileExistsError')
        if mode in ('r', 'r+') and cur == ABSENT:
            raise Raised('FileNotFoundError')
        if mode != 'r':
            dd[k] = TORN
            st.ghost['disk'] = dd
            st.ghost['open_owner'] = k
            st.ghost['open_base'] = cur
            event(ex, st, "open({},'{}')".format(k, mode), node)
        return base_file(ex, st, args, kw, node)
    reg.lib['h5py.File'] = h5file
    prev2 = reg.getattr_hook

    def getattr_hook2(ex, st, o, d, name, node):
        if name == 'close' and type(d).__name__ == 'H5Group':
            def close(e, s, a, k, n):
                owner = s.ghost.get('open_owner')
                if owner is None:
                    return None
                dd = disk(s)
                dd[owner] = NEW
                s.ghost['disk'] = dd
                s.ghost['open_owner'] = None
                event(e, s, 'close({})'.format(owner), n)
            return PyCallable(close)
        return prev2(ex, st, o, d, name, node)
    reg.getattr_hook = getattr_hook2
    # statement-level crash points while a file is open for writing are
    # covered by the TORN state set at open(); nothing else to record.
