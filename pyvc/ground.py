"""Ground-instantiation back end.

Skolemise the negated goal, then replace every remaining universal quantifier
(all in positive polarity after NNF) by the conjunction of its instances over
the ground index terms of the query. The result is quantifier-free:

* `unsat`  => the original query is unsat (instances are consequences):
              the obligation is *discharged* (sound).
* `sat`    => a counter-model of the instantiated query: reported as
              *refuted (ground)*; it is a candidate counter-example that the
              replay leg tries to confirm on the real code. It is never the only
              basis of a claim that the property is violated by a concrete input.
"""
import itertools
import time

import z3

MAX_TERMS = 40
MAX_INST = 6000


def _has_var(e, cache):
    # caches are keyed by AST id; the AST is stored with the result so that it
    # stays alive and its id cannot be reused by another term
    k = e.get_id()
    if k in cache:
        return cache[k][1]
    if z3.is_var(e):
        r = True
    elif z3.is_quantifier(e):
        r = True
    else:
        r = any(_has_var(c, cache) for c in e.children())
    cache[k] = (e, r)
    return r


def _collect_ground(fs):
    """Ground argument terms by (function symbol, argument position), plus all
    ground terms by sort (fallback)."""
    seen = {}
    bypos = {}
    bysort = {}
    hv = {}

    def ok_sort(t):
        s = t.sort()
        return s.kind() not in (z3.Z3_BOOL_SORT, z3.Z3_ARRAY_SORT,
                                z3.Z3_FLOATING_POINT_SORT,
                                z3.Z3_ROUNDING_MODE_SORT, z3.Z3_REAL_SORT)

    def add(lst, t):
        if not any(t.eq(u) for u in lst):
            lst.append(t)

    def walk(e):
        k = e.get_id()
        if k in seen:
            return
        seen[k] = e
        if z3.is_quantifier(e):
            walk(e.body())
            return
        if z3.is_app(e):
            d = e.decl()
            if d.kind() == z3.Z3_OP_UNINTERPRETED:
                if e.num_args() == 0 and ok_sort(e):
                    add(bysort.setdefault(e.sort().name(), []), e)
                for pos, c in enumerate(e.children()):
                    if ok_sort(c) and not _has_var(c, hv):
                        add(bypos.setdefault((d.name(), pos), []), c)
                        if not z3.is_int_value(c):
                            add(bysort.setdefault(c.sort().name(), []), c)
            for c in e.children():
                walk(c)

    # the negated goal is asserted last: visit it first so that its skolem
    # constants are never cut off by the per-variable cap
    for f in reversed(list(fs)):
        walk(f)
    return bypos, bysort


def _var_positions(body, nvars):
    """For each bound variable (de Bruijn index) the (symbol, position) slots
    where it occurs as a direct argument."""
    slots = {}
    seen = {}

    def walk(e, depth):
        key = (e.get_id(), depth)
        if key in seen:
            return
        seen[key] = e
        if z3.is_quantifier(e):
            walk(e.body(), depth + e.num_vars())
            return
        if z3.is_app(e):
            d = e.decl()
            if d.kind() == z3.Z3_OP_UNINTERPRETED:
                for pos, c in enumerate(e.children()):
                    if z3.is_var(c):
                        idx = z3.get_var_index(c) - depth
                        if 0 <= idx < nvars:
                            slots.setdefault(idx, set()).add((d.name(), pos))
            for c in e.children():
                walk(c, depth)

    walk(body, 0)
    return slots


def _instantiate(e, terms, stats, cache):
    """Rebuild e with every quantifier replaced by finitely many instances."""
    bypos, bysort = terms
    k = e.get_id()
    if k in cache:
        return cache[k][1]
    if z3.is_quantifier(e):
        if not e.is_forall():
            r = z3.BoolVal(True)     # weakening (positive polarity after NNF)
        else:
            n = e.num_vars()
            body = e.body()
            slots = _var_positions(body, n)
            doms = []
            for i in range(n):
                # variable i (declaration order) has de Bruijn index n-1-i
                s = e.var_sort(i)
                cands = []
                for slot in sorted(slots.get(n - 1 - i, ())):
                    for t in bypos.get(slot, []):
                        if t.sort().eq(s) and not any(t.eq(u) for u in cands):
                            cands.append(t)
                if not slots.get(n - 1 - i):
                    cands = list(bysort.get(s.name(), []))
                doms.append(cands[:MAX_TERMS])
            total = 1
            for dm in doms:
                total *= max(len(dm), 1)
            if any(len(dm) == 0 for dm in doms):
                r = z3.BoolVal(True)
            elif total > MAX_INST:
                stats['skipped'] += 1
                r = z3.BoolVal(True)
            else:
                insts = []
                for combo in itertools.product(*doms):
                    b = z3.substitute_vars(body, *reversed(combo))
                    insts.append(_instantiate(b, terms, stats, cache))
                stats['instances'] += len(insts)
                r = z3.And(*insts) if insts else z3.BoolVal(True)
    elif z3.is_app(e) and e.num_args() > 0 and e.sort().kind() == z3.Z3_BOOL_SORT:
        ch = [_instantiate(c, terms, stats, cache) if
              c.sort().kind() == z3.Z3_BOOL_SORT else c for c in e.children()]
        r = e.decl()(*ch) if any(not a.eq(b) for a, b in
                                 zip(ch, e.children())) else e
    else:
        r = e
    cache[k] = (e, r)
    return r


def _has_quant(e, cache):
    k = e.get_id()
    if k in cache:
        return cache[k][1]
    if z3.is_quantifier(e):
        r = True
    else:
        r = any(_has_quant(c, cache) for c in e.children())
    cache[k] = (e, r)
    return r


def fp_to_float(v):
    if v.isNaN():
        return float('nan')
    if v.isInf():
        return float('-inf') if v.isNegative() else float('inf')
    sig = v.significand_as_long()
    e = v.exponent_as_long(True)
    sb = v.sbits() - 1
    if e == 0:
        val = (sig / 2.0 ** sb) * 2.0 ** (2 - 2 ** (v.ebits() - 1))
    else:
        val = (1 + sig / 2.0 ** sb) * 2.0 ** (e - (2 ** (v.ebits() - 1) - 1))
    return -val if v.isNegative() else val


def _app_values(m, fs, limit=60):
    """values of ground applications of uninterpreted functions in the model
    (scalars only), so a replay can read off array elements"""
    out = {}
    seen = {}
    hv = {}

    def walk(e):
        k = e.get_id()
        if k in seen or len(out) >= limit:
            return
        seen[k] = e
        if z3.is_quantifier(e):
            return
        if z3.is_app(e):
            d = e.decl()
            if d.kind() == z3.Z3_OP_UNINTERPRETED and e.num_args() > 0 and \
                    not _has_var(e, hv) and e.sort().kind() in (
                        z3.Z3_FLOATING_POINT_SORT, z3.Z3_INT_SORT,
                        z3.Z3_REAL_SORT, z3.Z3_BOOL_SORT):
                try:
                    v = m.eval(e, model_completion=True)
                    args = [str(m.eval(c, model_completion=True))
                            for c in e.children()]
                    if z3.is_fp_value(v):
                        val = repr(fp_to_float(v))
                    else:
                        val = str(v)
                    out['{}({})'.format(d.name(), ','.join(args))] = val
                except z3.Z3Exception:
                    pass
            for c in e.children():
                walk(c)

    for f in fs:
        walk(f)
    return out


def ground_check(smt, timeout_ms=20000, rounds=3):
    t0 = time.time()
    fs = z3.parse_smt2_string(smt)
    g = z3.Goal()
    for f in fs:
        g.add(f)
    res = z3.Then(z3.Tactic('simplify'), z3.Tactic('nnf'))(g)
    flat = []
    for sub in res:
        for f in sub:
            flat.append(f)
    stats = dict(instances=0, skipped=0, terms=0, rounds=0)
    qc = {}
    cur = flat
    has_fp = 'FloatingPoint' in smt or 'Float64' in smt
    r = z3.unknown
    s = None
    deadline = t0 + timeout_ms / 1000.0
    # iterative deepening: instantiate with the ground terms of the previous
    # round, check; `unsat` at any depth is final (instances are consequences),
    # `sat` asks for one more round (the candidate model may violate deeper
    # instances)
    for rnd in range(rounds):
        terms = _collect_ground(cur)
        stats['terms'] = sum(len(v) for v in terms[1].values())
        stats['rounds'] = rnd + 1
        out = []
        cache = {}
        for f in flat:
            if _has_quant(f, qc):
                out.append(_instantiate(f, terms, stats, cache))
            else:
                out.append(f)
        cur = out
        left = int((deadline - time.time()) * 1000)
        if left <= 0:
            r = z3.unknown
            break
        r = z3.unknown
        if has_fp:
            try:
                s = z3.Then('simplify', 'propagate-values', 'solve-eqs',
                            'qffp').solver()
                s.set('timeout', left)
                for f in cur:
                    s.add(f)
                r = s.check()
            except z3.Z3Exception:
                r = z3.unknown
        if r == z3.unknown:
            s = z3.Solver()
            s.set('timeout', max(left, 1))
            for f in cur:
                s.add(f)
            r = s.check()
        if r == z3.unsat:
            break
        if stats['terms'] > 600:
            break
    model = None
    if r == z3.sat and s is not None:
        m = s.model()
        model = {}
        for d in m.decls():
            if d.arity() == 0:
                model[d.name()] = str(m[d])
        model = dict(sorted(model.items())[:80])
        model['__apps__'] = _app_values(m, cur)
    reason = (s.reason_unknown() if s is not None else 'budget exhausted') \
        if r == z3.unknown else ''
    return str(r), time.time() - t0, reason, model, stats
