"""HDF5 theory (assumed contract of h5py): a group is a finite map.

A group holds attributes, datasets and sub-groups under literal string names,
plus *families* `prefix_{i}` indexed by a (possibly symbolic) integer, written
sequentially 0..n-1 by loops. Stored values are immutable snapshots (h5py copies
data on write); reading returns what was stored (exactness of h5py is an
assumption listed in the evidence). The model is closed-world: a group
contains exactly what the modelled code put there, so `name in group`, and the
errors h5py raises for duplicate / missing names, are decidable obligations.
"""
import ast
import z3

from .core import (Sym, Arr, Arr2, LArr, SList, PyList, ObjRec, Ref, Opaque,
                   OutsideSubset, Raised, fresh, uid, I, B, concrete_int)
from . import arrays as A
from .symexec import PyCallable


class H5Group:
    def __init__(self):
        self.attrs = {}
        self.dsets = {}
        self.groups = {}
        self.fams = {}       # prefix -> Family
        self.token = None    # abstract content written by an abstract callee
        self.writable = True

    def clone(self):
        g = H5Group()
        g.attrs = dict(self.attrs)
        g.dsets = dict(self.dsets)
        g.groups = dict(self.groups)
        g.fams = dict(self.fams)
        g.token = self.token
        g.writable = self.writable
        return g


class Family:
    """entries prefix_0 .. prefix_{n-1}; `at(i)` is the stored value (an Arr
    for datasets, an abstract tree token for groups)"""

    def __init__(self, kind, n, at):
        self.kind = kind
        self.n = n
        self.at = at


class FmtKey:
    def __init__(self, prefix, idx):
        self.prefix = prefix
        self.idx = idx


class AttrsProxy:
    def __init__(self, gref):
        self.gref = gref


class DsetHandle:
    def __init__(self, gref, name):
        self.gref = gref
        self.name = name


class FamElem:
    """handle on the group prefix_{idx} of a family (abstract content)"""

    def __init__(self, gref, prefix, idx):
        self.gref = gref
        self.prefix = prefix
        self.idx = idx


def new_group(st):
    return st.alloc(H5Group(), 'h5')


def lit(key):
    if isinstance(key, str):
        return key
    if isinstance(key, FmtKey):
        c = concrete_int(key.idx)
        if c is not None:
            return key.prefix + str(c)
    return None


def install(reg):
    prev_fmt = reg.str_format

    def str_format(ex, st, s, args, node):
        if s.endswith('_{}') and len(args) == 1 and isinstance(
                args[0], (int, Sym)):
            return FmtKey(s[:-2], args[0] if isinstance(args[0], int)
                          else args[0].t)
        if prev_fmt is not None:
            return prev_fmt(ex, st, s, args, node)
        return Opaque('str')
    reg.str_format = str_format
    prev_getattr = reg.getattr_hook

    def getattr_hook(ex, st, o, d, name, node):
        if isinstance(d, H5Group):
            if name == 'attrs':
                return AttrsProxy(o)
            if name == 'create_group':
                return PyCallable(lambda e, s, a, k, n, o=o: create_group(
                    e, s, o, a[0], n))
            if name == 'create_dataset':
                return PyCallable(lambda e, s, a, k, n, o=o: create_dataset(
                    e, s, o, a[0], k, n))
            if name == 'close':
                return PyCallable(lambda e, s, a, k, n: None)
        if isinstance(d, DsetHandle) or isinstance(o, DsetHandle):
            h = d if isinstance(d, DsetHandle) else o
            if name == 'resize':
                return PyCallable(lambda e, s, a, k, n: None)
        if prev_getattr is not None:
            return prev_getattr(ex, st, o, d, name, node)
        return NotImplemented
    reg.getattr_hook = getattr_hook
    prev_sub = reg.subscript_hook

    def subscript_hook(ex, st, base, d, sl, node):
        if isinstance(base, AttrsProxy):
            g = st.cell(base.gref)
            key = lit(ex.eval(sl, st))
            if key is None:
                raise OutsideSubset('symbolic attribute name', node)
            if key not in g.attrs:
                raise Raised('KeyError')
            v = g.attrs[key]
            if isinstance(v, (Arr, Arr2, LArr)):
                return st.alloc(v, 'attr')     # a fresh array object
            return v
        if isinstance(d, H5Group):
            key = ex.eval(sl, st)
            k = lit(key)
            if k is not None:
                if k in d.groups:
                    return d.groups[k]
                if k in d.dsets:
                    return DsetHandle(base, k)
                import re as _re
                mm = _re.match(r'^(.*_)(\d+)$', k)
                if mm and mm.group(1) in d.fams:
                    key = FmtKey(mm.group(1), z3.IntVal(int(mm.group(2))))
                else:
                    raise Raised('KeyError')
            if isinstance(key, FmtKey):
                fam = d.fams.get(key.prefix)
                if fam is None:
                    raise Raised('KeyError')
                kidx = key.idx if z3.is_expr(key.idx) else z3.IntVal(key.idx)
                key = FmtKey(key.prefix, kidx)
                ex.need(st)('h5_name_exists', z3.And(key.idx >= 0,
                                                     key.idx < fam.n))
                if fam.kind == 'group':
                    return FamElem(base, key.prefix, key.idx)
                return DsetHandle(base, key)
            raise OutsideSubset('group key {!r}'.format(key), node)
        if isinstance(base, DsetHandle):
            return read_dset(ex, st, base, node)
        if prev_sub is not None:
            return prev_sub(ex, st, base, d, sl, node)
        return NotImplemented
    reg.subscript_hook = subscript_hook
    prev_set = reg.setitem_hook

    def setitem_hook(ex, st, base, d, sl, v, node):
        if isinstance(base, AttrsProxy):
            g = st.cell(base.gref).clone()
            key = lit(ex.eval(sl, st))
            if key is None:
                raise OutsideSubset('symbolic attribute name', node)
            g.attrs[key] = snapshot(ex, st, v)
            st.set_cell(base.gref, g)
            return True
        if isinstance(base, DsetHandle):
            # dset[...] = value
            g = st.cell(base.gref).clone()
            write_dset(ex, st, g, base.name, snapshot(ex, st, v), node,
                       overwrite=True)
            st.set_cell(base.gref, g)
            return True
        if prev_set is not None:
            return prev_set(ex, st, base, d, sl, v, node)
        return NotImplemented
    reg.setitem_hook = setitem_hook
    prev_contains = reg.contains_hook

    def contains_hook(ex, st, item, coll, node):
        if isinstance(coll, H5Group):
            k = lit(item)
            if k is not None:
                return k in coll.groups or k in coll.dsets
            if isinstance(item, FmtKey):
                fam = coll.fams.get(item.prefix)
                if fam is None:
                    return False
                return z3.And(item.idx >= 0, item.idx < fam.n)
        if prev_contains is not None:
            return prev_contains(ex, st, item, coll, node)
        raise OutsideSubset('membership test on {!r}'.format(coll), node)
    reg.contains_hook = contains_hook
    prev_arr = reg.np_array_hook

    def np_array_hook(ex, st, v, kw, node):
        if isinstance(v, DsetHandle):
            return read_dset(ex, st, v, node)
        if prev_arr is not None:
            return prev_arr(ex, st, v, kw, node)
        return NotImplemented
    reg.np_array_hook = np_array_hook


def snapshot(ex, st, v):
    """value as stored in the file (arrays are copied)"""
    from .npmodel import resolve
    v = resolve(ex, st, v)
    d = ex.deref(st, v)
    if isinstance(d, (Arr, Arr2, LArr)):
        return d
    return d if not isinstance(v, Ref) else d


def create_group(ex, st, gref, name, node):
    g = st.cell(gref).clone()
    k = lit(name)
    if k is not None:
        if k in g.groups or k in g.dsets:
            raise Raised('ValueError')       # h5py: name already exists
        sub = new_group(st)
        g.groups[k] = sub
        st.set_cell(gref, g)
        return sub
    if isinstance(name, FmtKey):
        fam = g.fams.get(name.prefix)
        if fam is None:
            fam = Family('group', z3.IntVal(0), lambda i: None)
        # sequential creation: the new name is the next free index
        ex.need(st)('h5_name_free', name.idx == fam.n)
        g.fams[name.prefix] = Family('group', fam.n + 1, fam.at)
        st.set_cell(gref, g)
        return FamElem(gref, name.prefix, name.idx)
    raise OutsideSubset('group name {!r}'.format(name), node)


def write_dset(ex, st, g, name, val, node, overwrite=False):
    k = lit(name)
    if k is not None:
        if not overwrite and (k in g.dsets or k in g.groups):
            raise Raised('ValueError')
        if overwrite and k not in g.dsets:
            raise Raised('KeyError')
        g.dsets[k] = val
        return
    if isinstance(name, FmtKey):
        fam = g.fams.get(name.prefix)
        if not isinstance(val, Arr):
            raise OutsideSubset('family of non-1-D datasets', node)
        if fam is None:
            fam = Family('dset', z3.IntVal(0), LArr(
                0, lambda i: z3.IntVal(0), lambda i, j: val.at(j), val.k))
        L = fam.at
        idx = name.idx
        if overwrite:
            ex.need(st)('h5_name_exists', z3.And(idx >= 0, idx < fam.n))
            g.fams[name.prefix] = Family('dset', fam.n, A.larr_store(
                LArr(fam.n, L.alen, L.at, L.k), idx, val))
        else:
            ex.need(st)('h5_name_free', idx == fam.n)
            g.fams[name.prefix] = Family('dset', fam.n + 1, A.larr_store(
                LArr(fam.n + 1, L.alen, L.at, L.k), idx, val))
        return
    raise OutsideSubset('dataset name {!r}'.format(name), node)


def create_dataset(ex, st, gref, name, kw, node):
    g = st.cell(gref).clone()
    write_dset(ex, st, g, name, snapshot(ex, st, kw.get('data')), node)
    st.set_cell(gref, g)
    return DsetHandle(gref, name)


def read_dset(ex, st, h, node):
    g = st.cell(h.gref)
    k = lit(h.name)
    if k is not None:
        v = g.dsets[k]
        return st.alloc(v, 'dset') if isinstance(v, (Arr, Arr2, LArr)) else v
    fam = g.fams[h.name.prefix]
    L = fam.at
    return st.alloc(LArr(fam.n, L.alen, L.at, L.k).elem(h.name.idx), 'dset')
