"""Keyword-argument guard for library models.

A model `h(ex, st, args, kw, node)` of a numpy / scipy / Generator function
only means what it says for the keyword arguments it actually reads. A call
with any other keyword (e.g. `rng.random(n, dtype=np.float32)`) is outside the
modelled subset and must not be silently treated like the call without it.

The set of keywords a model reads is derived from its source (and from the
models it wraps through closure cells): `kw.get('name')`, `kw['name']`,
`'name' in kw`, `kw.pop('name')`. A model that hands `kw` on to something this
analysis cannot see (a hook) is permissive.
"""
import inspect
import re

_cache = {}


def _analyse(h, seen):
    """(allowed keyword names, permissive?)"""
    if id(h) in seen:
        return set(), False
    seen.add(id(h))
    try:
        src = inspect.getsource(h)
        params = list(inspect.signature(h).parameters)
    except (OSError, TypeError, ValueError):
        return set(), True
    if len(params) < 4:
        return set(), True
    kw = params[3]
    if params[0] == 'self':
        kw = params[4] if len(params) > 4 else None
    if kw is None:
        return set(), True
    k = re.escape(kw)
    names = set()
    for pat in (r"%s\.get\(\s*'(\w+)'" % k, r"%s\[\s*'(\w+)'\s*\]" % k,
                r"'(\w+)'\s+(?:not\s+)?in\s+%s\b" % k,
                r"%s\.pop\(\s*'(\w+)'" % k):
        names |= set(re.findall(pat, src))
    # kw handed on as a whole
    body = src.split(':', 1)[1] if ':' in src else src
    passes = re.findall(r"(\w[\w\.\[\]']*)\(([^()]*\b%s\b[^()]*)\)" % k, body)
    # the model walks over all keywords itself
    permissive = bool(re.search(r"\b%s\.(items|keys|values)\(|in\s+%s\s*[:\]]"
                                % (k, k), body))
    inner = []
    cells = {}
    if getattr(h, '__closure__', None):
        for nm, c in zip(h.__code__.co_freevars, h.__closure__):
            try:
                cells[nm] = c.cell_contents
            except ValueError:
                pass
    for callee, arglist in passes:
        args = [a.strip() for a in arglist.split(',')]
        if kw not in args and ('**' + kw) not in args:
            continue
        base = callee.split('(')[0]
        target = cells.get(base)
        if callable(target) and not inspect.isclass(target):
            inner.append(target)
        elif base in ('dict', 'sorted', 'list', 'set'):
            permissive = True        # every keyword is taken over
        elif base == 'len':
            continue
        else:
            permissive = True
    for t in inner:
        n2, p2 = _analyse(t, seen)
        names |= n2
        permissive = permissive or p2
    return names, permissive


def allowed(h):
    key = id(h)
    if key not in _cache:
        _cache[key] = (_analyse(h, set()), h)      # keep h alive: id is stable
    return _cache[key][0]


def unknown_keywords(h, kwargs):
    if getattr(h, 'any_kwargs', False):
        return []          # the model is explicitly insensitive to keywords
    names, permissive = allowed(h)
    if permissive:
        return []
    return sorted(k for k in kwargs if k != '**' and k not in names)
