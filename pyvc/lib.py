"""Library models: Python builtins, numpy, scipy.special, numpy.random.Generator.

Every function here is an *assumed contract on a dependency*. Models that
introduce fresh symbols state their defining axioms; models of operations that
numpy can reject produce ``no_raise`` obligations.
"""
import ast
import z3

from .core import (Sym, Arr, Arr2, LArr, SList, PyList, FlatList, ObjRec, Ref, ClassVal,
                   Opaque, OutsideSubset, Raised, fresh, fresh_fn, uid, I, B,
                   concrete_int, concrete_bool, kind_of, sort_of)
from . import arrays as A
from .arrays import zv
from . import npmodel as M
from .npmodel import resolve, MaybeNone
from .symexec import Lib, Closure, IterDom, BoundMethod


def d_(ex, st, v):
    return ex.deref(st, resolve(ex, st, v))


def alloc(st, v, hint='a'):
    if isinstance(v, (Arr, Arr2, LArr, SList, PyList)):
        return st.alloc(v, hint)
    return v


def dtype_kind(ex, st, kwargs, default='real'):
    dt = kwargs.get('dtype')
    if dt is None:
        return default
    dt = ex.deref(st, resolve(ex, st, dt))
    if dt is None:
        return default
    name = getattr(dt, 'name', dt)
    if name == 'int':
        return 'int'
    if name == 'bool':
        return 'bool'
    if name == 'float':
        return 'real'
    if isinstance(dt, Opaque) and dt.what == 'dtype':
        return 'Blob'
    return default


def install(reg):
    L = reg.lib
    reg.globals['np'] = Lib('np')
    reg.globals['int'] = Lib('int')
    reg.globals['bool'] = Lib('bool')
    reg.globals['float'] = Lib('float')
    reg.globals['str'] = Lib('str')
    reg.globals['tuple'] = Lib('tuple')
    reg.globals['numbers'] = Lib('numbers')
    for nm in ('len', 'range', 'min', 'max', 'isinstance', 'hasattr', 'getattr',
               'setattr', 'list', 'map', 'zip', 'enumerate', 'reversed', 'sum',
               'all', 'any', 'callable', 'print', 'warn', 'time', 'partial',
               'logsumexp', 'type', 'dict', 'abs', 'gammaln'):
        reg.globals[nm] = Lib(nm)
    for nm in ('ValueError', 'TypeError', 'RuntimeError', 'AssertionError',
               'IndexError', 'DeprecationWarning', 'Warning'):
        reg.globals[nm] = Opaque(nm)

    # ---------------- builtins
    def b_len(ex, st, args, kw, node):
        v = d_(ex, st, args[0])
        if isinstance(v, (Arr, LArr, SList)):
            return Sym(v.n, 'int')
        if isinstance(v, FlatList):
            return Sym(v.cnt, 'int')
        if isinstance(v, Arr2):
            return Sym(v.nr, 'int')
        if isinstance(v, PyList):
            return len(v.items)
        if isinstance(v, (list, tuple, str)):
            return len(v)
        h = reg.len_hook
        if h is not None:
            return h(ex, st, v, node)
        raise OutsideSubset('len of {!r}'.format(v), node)
    L['len'] = b_len
    reg.len_hook = None

    def b_range(ex, st, args, kw, node):
        if len(args) == 1:
            lo, hi = 0, args[0]
        elif len(args) == 2:
            lo, hi = args
        else:
            raise OutsideSubset('range with step', node)
        cl, ch = concrete_int(lo), concrete_int(hi)
        if cl is not None and ch is not None and ch - cl <= 16:
            return [i for i in range(cl, ch)]
        lo_t, hi_t = I(lo), I(hi)
        n = z3.If(hi_t >= lo_t, hi_t - lo_t, z3.IntVal(0))
        return IterDom(z3.simplify(n), lambda k: Sym(lo_t + k, 'int'))
    L['range'] = b_range

    def b_minmax(is_min):
        def h(ex, st, args, kw, node):
            if len(args) == 1:
                raise OutsideSubset('min/max of iterable', node)
            acc = args[0]
            for b in args[1:]:
                if isinstance(acc, (int, float)) and isinstance(b, (int, float)):
                    acc = min(acc, b) if is_min else max(acc, b)
                    continue
                k = M.promote(acc, b)
                ta, tb = zv(acc, k), zv(b, k)
                acc = Sym(z3.If(ta <= tb, ta, tb) if is_min else
                          z3.If(ta >= tb, ta, tb), k)
            return acc
        return h
    L['min'] = b_minmax(True)
    L['max'] = b_minmax(False)

    def b_abs(ex, st, args, kw, node):
        v = args[0]
        if isinstance(v, (int, float)):
            return abs(v)
        return Sym(z3.If(v.t >= 0, v.t, -v.t), v.k)
    L['abs'] = b_abs

    def b_isinstance(ex, st, args, kw, node):
        h = reg.isinstance_hook
        if h is not None:
            r = h(ex, st, args[0], args[1], node)
            if r is not NotImplemented:
                return r
        v = d_(ex, st, args[0])
        ty = ex.deref(st, args[1])
        tys = ty if isinstance(ty, tuple) else (ty,)
        res = False
        for t in tys:
            name = getattr(t, 'name', None)
            if name == 'tuple':
                res = res or isinstance(v, tuple)
            elif name == 'int':
                res = res or (isinstance(v, int) and not isinstance(v, bool)) \
                    or (isinstance(v, Sym) and v.k == 'int')
            elif name == 'bool':
                res = res or isinstance(v, bool) or (
                    isinstance(v, Sym) and v.k == 'bool')
            elif name == 'str':
                res = res or isinstance(v, str)
            elif isinstance(t, ClassVal):
                res = res or (isinstance(v, ObjRec) and v.cls == t.name)
            else:
                raise OutsideSubset('isinstance against {!r}'.format(t), node)
        return res
    L['isinstance'] = b_isinstance
    reg.isinstance_hook = None

    def b_hasattr(ex, st, args, kw, node):
        h = reg.hasattr_hook
        if h is not None:
            r = h(ex, st, args[0], args[1], node)
            if r is not NotImplemented:
                return r
        v = d_(ex, st, args[0])
        if isinstance(v, ObjRec):
            return args[1] in v.fields
        raise OutsideSubset('hasattr on {!r}'.format(v), node)
    L['hasattr'] = b_hasattr
    reg.hasattr_hook = None

    def b_getattr(ex, st, args, kw, node):
        if not isinstance(args[1], str):
            raise OutsideSubset('getattr with symbolic name', node)
        return M.getattr_value(ex, st, args[0], args[1], node)
    L['getattr'] = b_getattr

    def b_setattr(ex, st, args, kw, node):
        if not isinstance(args[1], str):
            raise OutsideSubset('setattr with symbolic name', node)
        o = args[0]
        h = reg.setattr_hook
        if h is not None and h(ex, st, o, args[1], args[2], node):
            return None
        if not (isinstance(o, Ref) and isinstance(st.cell(o), ObjRec)):
            raise OutsideSubset('setattr on {!r}'.format(o), node)
        st.setfield(o, args[1], args[2])
        return None
    L['setattr'] = b_setattr

    def b_list(ex, st, args, kw, node):
        if not args:
            return st.alloc(PyList(), 'list')
        v = d_(ex, st, args[0])
        if isinstance(v, (list, tuple)):
            return st.alloc(PyList(list(v)), 'list')
        if isinstance(v, PyList):
            return st.alloc(PyList(v.items), 'list')
        if isinstance(v, (IterDom, Arr, LArr, SList, Opaque)):
            return args[0]
        h = reg.list_hook
        if h is not None:
            return h(ex, st, v, node)
        raise OutsideSubset('list({!r})'.format(v), node)
    L['list'] = b_list
    reg.list_hook = None

    def b_enumerate(ex, st, args, kw, node):
        v = d_(ex, st, args[0])
        if isinstance(v, (list, tuple)):
            return [(i, x) for i, x in enumerate(v)]
        if isinstance(v, PyList):
            return [(i, x) for i, x in enumerate(v.items)]
        dom = ex.iter_domain(st, v, node)
        r = IterDom(dom.n, lambda k: (Sym(k, 'int'), dom.bind(k)))
        return r
    L['enumerate'] = b_enumerate

    def b_zip(ex, st, args, kw, node):
        vs = [d_(ex, st, a) for a in args]
        if all(isinstance(v, (list, tuple, PyList)) for v in vs):
            ls = [v.items if isinstance(v, PyList) else list(v) for v in vs]
            return [tuple(t) for t in zip(*ls)]
        doms = [ex.iter_domain(st, v, node) for v in vs]
        if any(isinstance(dm, list) for dm in doms):
            raise OutsideSubset('zip of concrete and symbolic', node)
        n = doms[0].n
        for dm in doms[1:]:
            n = z3.If(dm.n < n, dm.n, n)
        n = z3.simplify(n)
        r = IterDom(n, lambda k: tuple(dm.bind(k) for dm in doms))
        r.zip_lens = [dm.n for dm in doms]
        return r
    L['zip'] = b_zip

    def b_reversed(ex, st, args, kw, node):
        v = d_(ex, st, args[0])
        if isinstance(v, (list, tuple)):
            return list(reversed(v))
        if isinstance(v, PyList):
            return list(reversed(v.items))
        dom = ex.iter_domain(st, v, node)
        return IterDom(dom.n, lambda k: dom.bind(dom.n - 1 - k))
    L['reversed'] = b_reversed

    def b_callable(ex, st, args, kw, node):
        v = d_(ex, st, args[0])
        h = reg.callable_hook
        if h is not None:
            return h(ex, st, v, node)
        raise OutsideSubset('callable({!r})'.format(v), node)
    L['callable'] = b_callable
    reg.callable_hook = None

    def b_noop(ex, st, args, kw, node):
        return None
    b_noop.any_kwargs = True      # output only: no effect on the modelled state
    L['print'] = b_noop
    L['warn'] = b_noop
    L['warnings.warn'] = b_noop

    def b_time(ex, st, args, kw, node):
        # wall clock: a fresh non-deterministic real, tagged as nondeterminism
        st.ghost['nondet'] = st.ghost.get('nondet', ()) + ('time',)
        t = fresh('real', 'time')
        return t
    L['time'] = b_time

    def b_int(ex, st, args, kw, node):
        v = d_(ex, st, args[0])
        if isinstance(v, (int, float)):
            return int(v)
        if isinstance(v, Sym) and v.k == 'int':
            return v
        h = reg.int_hook
        if h is not None:
            return h(ex, st, v, node)
        raise OutsideSubset('int({!r})'.format(v), node)
    L['int'] = b_int
    reg.int_hook = None

    def b_str(ex, st, args, kw, node):
        v = d_(ex, st, args[0])
        if isinstance(v, str):
            return v
        h = reg.str_hook
        if h is not None:
            return h(ex, st, v, node)
        return Opaque('str')
    L['str'] = b_str
    reg.str_hook = None

    def b_sum(ex, st, args, kw, node):
        v = d_(ex, st, args[0])
        if isinstance(v, PyList):
            acc = 0
            for it in v.items:
                acc = M.scalar_arith(ast.Add(), acc, it)
            return acc
        if isinstance(v, Arr):
            return np_sum(ex, st, [args[0]], {}, node)
        raise OutsideSubset('sum({!r})'.format(v), node)
    L['sum'] = b_sum

    def b_allany(is_all):
        def h(ex, st, args, kw, node):
            v = d_(ex, st, args[0])
            if isinstance(v, PyList):
                ts = [ex.truth(st, it) for it in v.items]
                cs = [concrete_bool(t) for t in ts]
                if all(c is not None for c in cs):
                    return all(cs) if is_all else any(cs)
                zs = [B(t) for t in ts]
                return Sym(z3.And(*zs) if is_all else z3.Or(*zs), 'bool')
            if isinstance(v, Arr) and v.k == 'bool':
                return Sym(A.all_of(v) if is_all else A.any_of(v), 'bool')
            raise OutsideSubset('all/any({!r})'.format(v), node)
        return h
    L['all'] = b_allany(True)
    L['any'] = b_allany(False)

    # ---------------- numpy constructors
    def shape_arg(ex, st, v, node):
        v = ex.deref(st, v)
        if isinstance(v, tuple):
            return [x for x in v]
        if isinstance(v, PyList):
            return list(v.items)
        return [v]

    def np_fill(val_of_kind):
        def h(ex, st, args, kw, node):
            shp = shape_arg(ex, st, args[0] if args else kw['shape'], node)
            k = dtype_kind(ex, st, kw, 'real')
            if k not in ('int', 'real', 'bool'):
                # array of an opaque element sort: contents unconstrained
                return st.alloc(A.fresh_arr(st, k, 'z', n=I(shp[0])), 'z')
            val = val_of_kind(k)
            if len(shp) == 1:
                return st.alloc(A.const_arr(I(shp[0]), val, k), 'z')
            if len(shp) == 2:
                hk = reg.zeros2_hook
                if hk is not None:
                    r = hk(ex, st, shp, val, k, node)
                    if r is not NotImplemented:
                        return r
                t = zv(val, k)
                return st.alloc(Arr2(I(shp[0]), I(shp[1]), lambda r, c: t, k),
                                'z2')
            raise OutsideSubset('array rank', node)
        return h
    L['np.zeros'] = np_fill(lambda k: {'int': 0, 'real': 0.0, 'bool': False}[k])
    L['np.ones'] = np_fill(lambda k: {'int': 1, 'real': 1.0, 'bool': True}[k])
    reg.zeros2_hook = None

    def np_zeros_like(ex, st, args, kw, node):
        v = d_(ex, st, args[0])
        if isinstance(v, Arr):
            return st.alloc(A.const_arr(v.n, {'int': 0, 'real': 0.0,
                                              'bool': False}[v.k], v.k), 'z')
        if isinstance(v, Arr2):
            t = zv(0.0, 'real')
            return st.alloc(Arr2(v.nr, v.nc, lambda r, c: t, 'real'), 'z2')
        raise OutsideSubset('zeros_like', node)
    L['np.zeros_like'] = np_zeros_like

    def np_arange(ex, st, args, kw, node):
        if len(args) != 1:
            raise OutsideSubset('arange form', node)
        return st.alloc(Arr(I(args[0]), lambda i: i, 'int'), 'ar')
    L['np.arange'] = np_arange

    def np_copy(ex, st, args, kw, node):
        v = d_(ex, st, args[0])
        if isinstance(v, (Arr, Arr2)):
            if isinstance(v, Arr):
                v = Arr(v.n, v.fn, v.k, tag=v.tag)
            return st.alloc(v, 'copy')
        raise OutsideSubset('np.copy({!r})'.format(v), node)
    L['np.copy'] = np_copy

    def np_array(ex, st, args, kw, node):
        v = d_(ex, st, args[0])
        h = reg.np_array_hook
        if h is not None:
            r = h(ex, st, v, kw, node)
            if r is not NotImplemented:
                return r
        if isinstance(v, (Arr, Arr2)):
            return st.alloc(v, 'arr')
        if isinstance(v, PyList):
            items = v.items
            if all(isinstance(x, (Sym, int, float, bool)) for x in items) and \
                    items:
                k = kind_of(items[0])
                for x in items[1:]:
                    k = M.promote(Sym(None, k), x) if False else (
                        k if kind_of(x) == k else 'real')
                ts = [zv(x, k) for x in items]

                def fn(i, ts=ts):
                    r = ts[-1]
                    for j in range(len(ts) - 2, -1, -1):
                        r = z3.If(i == j, ts[j], r)
                    return r
                return st.alloc(Arr(len(ts), fn, k), 'arr')
            if not items:
                return st.alloc(A.const_arr(0, 0.0, 'real'), 'arr')
        raise OutsideSubset('np.array({!r})'.format(v), node)
    L['np.array'] = np_array
    reg.np_array_hook = None

    def np_atleast_1d(ex, st, args, kw, node):
        v = d_(ex, st, args[0])
        if isinstance(v, Arr):
            return args[0]
        if isinstance(v, (Sym, int, float, bool)):
            k = kind_of(v)
            return st.alloc(A.const_arr(1, v, k), 'a1')
        raise OutsideSubset('atleast_1d', node)
    L['np.atleast_1d'] = np_atleast_1d

    def np_repeat(ex, st, args, kw, node):
        a = d_(ex, st, args[0])
        reps = d_(ex, st, args[1])
        # arrays of rows are 1-D arrays of row values here: repeating along
        # axis 0 repeats rows; any other axis is outside the model
        if kw.get('axis') not in (None, 0):
            raise OutsideSubset('np.repeat along axis {!r}'.format(
                kw.get('axis')), node)
        if isinstance(a, (Sym, int, float)) and isinstance(reps, (Sym, int)):
            k = kind_of(a)
            return st.alloc(A.const_arr(I(reps), a, k), 'rep')
        if isinstance(a, Arr) and isinstance(reps, Arr) and reps.k == 'int':
            ex.need(st)('repeat_len', a.n == reps.n)
            ex.need(st)('repeat_nonneg', A.forall_idx(
                reps.n, lambda i: reps.at(i) >= 0))
            info = repeat_info(st, reps)
            return st.alloc(Arr(info.tot, lambda j: a.at(info.src(j)), a.k),
                            'rep')
        raise OutsideSubset('np.repeat form', node)
    L['np.repeat'] = np_repeat

    # ---------------- reductions
    def np_sum(ex, st, args, kw, node):
        v = d_(ex, st, args[0])
        if 'axis' in kw and not (isinstance(v, PyList)):
            hk = reg.sum_axis_hook
            if hk is not None:
                return hk(ex, st, v, kw, node)
            raise OutsideSubset('np.sum with axis', node)
        if isinstance(v, Arr):
            if v.k == 'bool':
                return Sym(A.count(st, v), 'int')
            if v.k == 'int':
                return Sym(sum_int(st, v), 'int')
            if v.k == 'real':
                return Sym(array_fn(st, 'sum_real', v, 'real'), 'real')
        if isinstance(v, PyList):
            hk = reg.sum_axis_hook
            if hk is not None:
                return hk(ex, st, v, kw, node)
        raise OutsideSubset('np.sum({!r})'.format(v), node)
    L['np.sum'] = np_sum
    reg.sum_axis_hook = None

    def np_all(ex, st, args, kw, node):
        v = d_(ex, st, args[0])
        if isinstance(v, (bool, Sym)):
            return v
        if isinstance(v, Arr) and v.k == 'bool':
            if 'axis' in kw:
                raise OutsideSubset('np.all axis on 1-D', node)
            info, pos = A.mask_info(st, v)
            return Sym(A.count(st, v) == v.n, 'bool')
        hk = reg.all_hook
        if hk is not None:
            return hk(ex, st, v, kw, node, True)
        raise OutsideSubset('np.all({!r})'.format(v), node)
    L['np.all'] = np_all
    reg.all_hook = None

    def np_any(ex, st, args, kw, node):
        v = d_(ex, st, args[0])
        if isinstance(v, (bool, Sym)):
            return v
        if isinstance(v, Arr) and v.k == 'bool' and 'axis' not in kw:
            return Sym(A.count(st, v) > 0, 'bool')
        hk = reg.all_hook
        if hk is not None:
            return hk(ex, st, v, kw, node, False)
        raise OutsideSubset('np.any({!r})'.format(v), node)
    L['np.any'] = np_any

    def np_flatnonzero(ex, st, args, kw, node):
        v = d_(ex, st, args[0])
        if isinstance(v, Arr) and v.k == 'bool':
            return st.alloc(A.flatnonzero(st, v), 'fnz')
        raise OutsideSubset('flatnonzero', node)
    L['np.flatnonzero'] = np_flatnonzero

    def np_concatenate(ex, st, args, kw, node):
        v = d_(ex, st, args[0])
        if isinstance(v, (tuple, PyList)):
            items = v.items if isinstance(v, PyList) else list(v)
            arrs = [d_(ex, st, x) for x in items]
            if not arrs:
                raise Raised('ValueError')
            # python lists of scalars inside the sequence become 1-D arrays
            for ii, a in enumerate(arrs):
                if isinstance(a, PyList) and a.items and all(
                        isinstance(x, (Sym, int, float, bool))
                        for x in a.items):
                    arrs[ii] = d_(ex, st, np_array(ex, st, [items[ii]], {},
                                                   node))
            if all(isinstance(a, Arr) for a in arrs):
                r = arrs[0]
                for a in arrs[1:]:
                    r = A.concat2(r, a)
                return st.alloc(r, 'cat')
            if all(isinstance(a, (bool, int, float, Sym)) for a in arrs):
                # concatenate of python scalars list, e.g. [a<b, c<d]
                return np_array(ex, st, [args[0]], {}, node)
            hk = reg.concat_hook
            if hk is not None:
                return hk(ex, st, arrs, kw, node)
        if isinstance(v, FlatList):
            # numpy raises on an empty list
            ex.need(st)('concatenate_nonempty', v.cnt >= 1)
            return st.alloc(v.flat, 'cat')
        if isinstance(v, LArr):
            # numpy raises on an empty list
            ex.need(st)('concatenate_nonempty', v.n >= 1)
            r, info = A.concat_larr(st, v)
            return st.alloc(r, 'cat')
        raise OutsideSubset('np.concatenate({!r})'.format(v), node)
    L['np.concatenate'] = np_concatenate
    reg.concat_hook = None

    def np_append(ex, st, args, kw, node):
        a = d_(ex, st, args[0])
        b = d_(ex, st, args[1])
        hk = reg.append_hook
        if hk is not None:
            r = hk(ex, st, a, b, kw, node)
            if r is not NotImplemented:
                return r
        if isinstance(a, Arr) and isinstance(b, Arr):
            return st.alloc(A.concat2(a, b), 'app')
        if isinstance(a, Arr) and isinstance(b, (Sym, int, float, bool)):
            if 'axis' in kw:
                # numpy: np.append(arr, scalar, axis=0) raises (0-d array)
                raise Raised('ValueError')
            if a.k == 'int' and kind_of(b) == 'real':
                a = A.to_real(a)
            return st.alloc(A.append_scalar(a, b), 'app')
        raise OutsideSubset('np.append form', node)
    L['np.append'] = np_append
    reg.append_hook = None

    def np_vstack(ex, st, args, kw, node):
        v = d_(ex, st, args[0])
        hk = reg.vstack_hook
        if hk is not None:
            r = hk(ex, st, v, node)
            if r is not NotImplemented:
                return r
        if isinstance(v, (tuple, PyList)):
            items = v.items if isinstance(v, PyList) else list(v)
            arrs = [d_(ex, st, x) for x in items]
            if all(isinstance(a, Arr) and a.k not in ('int', 'real', 'bool')
                   for a in arrs) and arrs:
                r = arrs[0]
                for a in arrs[1:]:
                    r = A.concat2(r, a)
                return st.alloc(r, 'vst')
        if isinstance(v, LArr) and v.k not in ('int', 'real', 'bool'):
            ex.need(st)('vstack_nonempty', v.n >= 1)
            r, info = A.concat_larr(st, v)
            return st.alloc(r, 'vst')
        raise OutsideSubset('np.vstack form', node)
    L['np.vstack'] = np_vstack
    reg.vstack_hook = None

    def np_delete(ex, st, args, kw, node):
        a = d_(ex, st, args[0])
        i = args[1]
        if isinstance(a, Arr) and isinstance(i, (int, Sym)) and 'axis' not in kw:
            return st.alloc(A.delete_at(st, a, i, ex.need(st)), 'del')
        raise OutsideSubset('np.delete form', node)
    L['np.delete'] = np_delete

    def np_where(ex, st, args, kw, node):
        if len(args) != 3:
            raise OutsideSubset('np.where form', node)
        c, x, y = [d_(ex, st, a) for a in args]
        if not (isinstance(c, Arr) and c.k == 'bool'):
            raise OutsideSubset('np.where cond', node)
        need = ex.need(st)
        for o in (x, y):
            if isinstance(o, Arr):
                need('where_broadcast', o.n == c.n)
        kx = x.k if isinstance(x, Arr) else kind_of(x)
        ky = y.k if isinstance(y, Arr) else kind_of(y)
        k = M.promote(Sym(None, kx), Sym(None, ky))

        def el(o, i):
            if isinstance(o, Arr):
                return zv(Sym(o.at(i), o.k), k)
            return zv(o, k)
        return st.alloc(Arr(c.n, lambda i: z3.If(c.at(i), el(x, i), el(y, i)),
                            k), 'where')
    L['np.where'] = np_where

    def argext(is_max):
        def h(ex, st, args, kw, node):
            v = d_(ex, st, args[0])
            if 'axis' in kw:
                hk = reg.argmax_axis_hook
                if hk is not None:
                    return hk(ex, st, v, kw, node, is_max)
                raise OutsideSubset('argmax axis', node)
            if isinstance(v, Arr) and v.k in ('int', 'real') and \
                    concrete_int(v.n) == 2:
                # two elements: case split (first occurrence wins ties)
                a0, a1 = v.at(z3.IntVal(0)), v.at(z3.IntVal(1))
                first = ex.decide(st, (a0 >= a1) if is_max else (a0 <= a1))
                return 0 if first else 1
            if isinstance(v, Arr) and v.k in ('int', 'real'):
                ex.need(st)('arg{}_nonempty'.format('max' if is_max else 'min'),
                            v.n >= 1)
                r = z3.Int(uid('argm'))
                st.assume(z3.And(r >= 0, r < v.n))
                if is_max:
                    st.assume(A.forall_idx(v.n, lambda i: v.at(i) <= v.at(r)))
                else:
                    st.assume(A.forall_idx(v.n, lambda i: v.at(i) >= v.at(r)))
                # first occurrence
                st.assume(A.forall_idx(r, lambda i: v.at(i) != v.at(r)))
                return Sym(r, 'int')
            raise OutsideSubset('argmax({!r})'.format(v), node)
        return h
    L['np.argmax'] = argext(True)
    L['np.argmin'] = argext(False)
    reg.argmax_axis_hook = None

    def amaxmin(is_max):
        f = M.f_amax if is_max else M.f_amin

        def h(ex, st, args, kw, node):
            v = d_(ex, st, args[0])
            if isinstance(v, Arr) and v.k in ('int', 'real'):
                ex.need(st)('amax_nonempty', v.n >= 1)
                vr = A.to_real(v)
                t = array_fn(st, 'amax' if is_max else 'amin', vr, 'real')
                st.assume(A.forall_idx(v.n, lambda i: (
                    vr.at(i) <= t) if is_max else (vr.at(i) >= t)))
                st.assume(A.exists_idx(v.n, lambda i: vr.at(i) == t))
                if v.k == 'int':
                    return Sym(z3.ToInt(t), 'int')
                return Sym(t, 'real')
            raise OutsideSubset('amax({!r})'.format(v), node)
        return h
    L['np.amax'] = amaxmin(True)
    L['np.amin'] = amaxmin(False)

    def np_nanmax(ex, st, args, kw, node):
        v = d_(ex, st, args[0])
        return Sym(array_fn(st, 'nanmax', A.to_real(v), 'real'), 'real')
    L['np.nanmax'] = np_nanmax

    def np_median(ex, st, args, kw, node):
        v = d_(ex, st, args[0])
        return Sym(array_fn(st, 'median', A.to_real(v), 'real'), 'real')
    L['np.median'] = np_median

    def np_argsort(ex, st, args, kw, node):
        v = d_(ex, st, args[0])
        if not isinstance(v, Arr):
            raise OutsideSubset('argsort', node)
        p, q = A.permutation(st, v.n, 'argsort')
        i, j = A.qi('i'), A.qi('j')
        st.assume(A.QForAll([i, j], z3.Implies(
            z3.And(i >= 0, i <= j, j < v.n), v.at(p(i)) <= v.at(p(j))),
            patterns=[z3.MultiPattern(p(i), p(j))]))
        return st.alloc(Arr(v.n, lambda t: p(t), 'int', tag=('argsort', v),
                            facts=dict(distinct=True, nonneg=True)),
                        'argsort')
    L['np.argsort'] = np_argsort

    def np_sort(ex, st, args, kw, node):
        v = d_(ex, st, args[0])
        if not isinstance(v, Arr):
            raise OutsideSubset('sort', node)
        p, q = A.permutation(st, v.n, 'sort')
        i, j = A.qi('i'), A.qi('j')
        st.assume(A.QForAll([i, j], z3.Implies(
            z3.And(i >= 0, i <= j, j < v.n), v.at(p(i)) <= v.at(p(j))),
            patterns=[z3.MultiPattern(p(i), p(j))]))
        return st.alloc(Arr(v.n, lambda t: v.at(p(t)), v.k,
                            tag=('sorted', v, p, q)), 'sort')
    L['np.sort'] = np_sort

    def np_diff(ex, st, args, kw, node):
        v = d_(ex, st, args[0])
        n = z3.If(v.n >= 1, v.n - 1, z3.IntVal(0))
        return st.alloc(Arr(n, lambda i: v.at(i + 1) - v.at(i), v.k), 'diff')
    L['np.diff'] = np_diff

    def np_bincount(ex, st, args, kw, node):
        hk = reg.bincount_hook
        if hk is not None:
            return hk(ex, st, args, kw, node)
        raise OutsideSubset('np.bincount', node)
    L['np.bincount'] = np_bincount
    reg.bincount_hook = None

    # ---------------- elementwise math
    def elementwise(fz, name):
        def h(ex, st, args, kw, node):
            v = d_(ex, st, args[0])
            if isinstance(v, (int, float)) and not isinstance(v, bool):
                return Sym(fz(zv(v, 'real')), 'real')
            if isinstance(v, Sym):
                return Sym(fz(zv(v, 'real')), 'real')
            if isinstance(v, Arr):
                vr = A.to_real(v)
                return st.alloc(Arr(v.n, lambda i: fz(vr.at(i)), 'real'), name)
            if isinstance(v, Arr2):
                return st.alloc(Arr2(v.nr, v.nc, lambda r, c: fz(v.at(r, c)),
                                     'real'), name)
            raise OutsideSubset('np.{}({!r})'.format(name, v), node)
        return h
    L['np.log'] = elementwise(lambda t: M.f_log(t), 'log')
    L['np.exp'] = elementwise(lambda t: M.f_exp(t), 'exp')
    L['np.sqrt'] = elementwise(lambda t: M.f_sqrt(t), 'sqrt')
    L['np.floor'] = elementwise(lambda t: M.f_floor(t), 'floor')
    L['gammaln'] = elementwise(
        lambda t: z3.Function('gammaln', z3.RealSort(), z3.RealSort())(t),
        'gammaln')

    def np_isnan(ex, st, args, kw, node):
        v = d_(ex, st, args[0])
        if isinstance(v, Arr):
            return st.alloc(Arr(v.n, lambda i: v.at(i) == M.NAN, 'bool'), 'isnan')
        if isinstance(v, Sym):
            return Sym(v.t == M.NAN, 'bool')
        raise OutsideSubset('isnan', node)
    L['np.isnan'] = np_isnan

    def np_maximum(ex, st, args, kw, node):
        a, b = d_(ex, st, args[0]), d_(ex, st, args[1])

        def f(x, y):
            k = M.promote(x, y)
            tx, ty = zv(x, k), zv(y, k)
            return Sym(z3.If(tx >= ty, tx, ty), k)
        return M._wrap(ex, st, M.lift2(ex, st, f, a, b))
    L['np.maximum'] = np_maximum

    def lse(ex, st, args, kw, node):
        v = d_(ex, st, args[0])
        if isinstance(v, PyList):
            v = d_(ex, st, np_array(ex, st, [args[0]], {}, node))
        if isinstance(v, Arr):
            return Sym(lse_term(st, v), 'real')
        raise OutsideSubset('logsumexp({!r})'.format(v), node)
    L['logsumexp'] = lse

    # ---------------- numpy.random.Generator (receiver is Opaque('rng'))
    def rng_touch(st):
        st.ghost['rng_ver'] = fresh('int', 'rngver')
        st.ghost['rng_draws'] = st.ghost.get('rng_draws', 0) + 1

    reg.ghost_havoc['rng'] = lambda ex, st: rng_touch(st)

    def rng_random(ex, st, args, kw, node):
        rng_touch(st)
        size = kw.get('size', args[1] if len(args) > 1 else None)
        if size is None:
            u = fresh('real', 'u')
            st.assume(z3.And(u.t >= 0, u.t < 1))
            return u
        size = ex.deref(st, size)
        if isinstance(size, tuple):
            if len(size) == 2:
                m = A.fresh_arr2(st, I(size[0]), I(size[1]), 'rand')
                r, c = A.qi('r'), A.qi('c')
                st.assume(z3.ForAll([r, c], z3.And(m.at(r, c) >= 0,
                                                   m.at(r, c) < 1)))
                hk = reg.random2_hook
                if hk is not None:
                    return hk(ex, st, m, node)
                return st.alloc(m, 'rand')
            size = size[0]
        a = A.fresh_arr(st, 'real', 'rand', n=I(size))
        i = A.qi('i')
        st.assume(z3.ForAll([i], z3.And(a.at(i) >= 0, a.at(i) < 1)))
        st.ghost['rng_uniform_draws'] = st.ghost.get(
            'rng_uniform_draws', ()) + (a,)
        return st.alloc(a, 'rand')
    L['rng.random'] = rng_random
    L['rng.uniform'] = rng_random
    reg.random2_hook = None

    def rng_choice(ex, st, args, kw, node):
        rng_touch(st)
        a = d_(ex, st, args[1])
        n = kw.get('size')
        rep = kw.get('replace', True)
        if not isinstance(a, Arr) or rep is not False:
            raise OutsideSubset('rng.choice form', node)
        n_t = I(n)
        # numpy raises if size > len(a) when replace=False
        ex.need(st)('choice_size', z3.And(n_t >= 0, n_t <= a.n))
        pos = fresh_fn(['int'], 'int', 'chpos')
        i, j = A.qi('i'), A.qi('j')
        st.assume(A.QForAll([i], z3.Implies(
            z3.And(i >= 0, i < n_t), z3.And(pos(i) >= 0, pos(i) < a.n)),
            patterns=[pos(i)]))
        st.assume(A.QForAll([i, j], z3.Implies(
            z3.And(i >= 0, i < j, j < n_t), pos(i) != pos(j)),
            patterns=[z3.MultiPattern(pos(i), pos(j))]))
        return st.alloc(Arr(n_t, lambda t: a.at(pos(t)), a.k,
                            tag=('choice', a, pos)), 'choice')
    L['rng.choice'] = rng_choice

    def rng_integers(ex, st, args, kw, node):
        rng_touch(st)
        return fresh('int', 'rint')
    L['rng.integers'] = rng_integers

    def rng_shuffle(ex, st, args, kw, node):
        rng_touch(st)
        ref = args[1]
        a = d_(ex, st, ref)
        if isinstance(a, Arr):
            p, q = A.permutation(st, a.n, 'shuf')
            st.set_cell(ref, Arr(a.n, lambda t: a.at(p(t)), a.k))
            return None
        raise OutsideSubset('rng.shuffle form', node)
    L['rng.shuffle'] = rng_shuffle

    def rng_multinomial(ex, st, args, kw, node):
        rng_touch(st)
        n = I(args[1])
        p = d_(ex, st, args[2])
        r = A.fresh_arr(st, 'int', 'multi', n=p.n)
        st.assume(A.forall_idx(r.n, lambda i: r.at(i) >= 0))
        st.assume(sum_int(st, r) == n)
        st.ghost['multinomial'] = st.ghost.get('multinomial', ()) + ((n, p, r),)
        return st.alloc(r, 'multi')
    L['rng.multinomial'] = rng_multinomial

    def partial_(ex, st, args, kw, node):
        return Opaque('partial')
    L['partial'] = partial_


class RepeatInfo:
    """Index map of np.repeat(a, reps): result[j] = a[src(j)], src monotone,
    each i has exactly reps[i] preimages forming a contiguous block."""

    def __init__(self, st, reps):
        self.reps = reps
        self.tot = z3.Int(uid('reptot'))
        self.src = fresh_fn(['int'], 'int', 'repsrc')
        self.off = fresh_fn(['int'], 'int', 'repoff')
        src, off, tot = self.src, self.off, self.tot
        i, j = A.qi('i'), A.qi('j')
        st.assume(tot >= 0)
        st.assume(off(0) == 0)
        st.assume(off(reps.n) == tot)
        st.assume(A.QForAll([i], z3.Implies(
            z3.And(i >= 0, i < reps.n), off(i + 1) == off(i) + reps.at(i)),
            patterns=[off(i)]))
        st.assume(A.QForAll([j], z3.Implies(
            z3.And(j >= 0, j < tot),
            z3.And(src(j) >= 0, src(j) < reps.n, off(src(j)) <= j,
                   j < off(src(j)) + reps.at(src(j)))), patterns=[src(j)]))
        k = A.qi('k')
        st.assume(A.QForAll([j, k], z3.Implies(
            z3.And(j >= 0, j <= k, k < tot), src(j) <= src(k)),
            patterns=[z3.MultiPattern(src(j), src(k))]))
        st.assume(tot == sum_int(st, reps))
        self.n = reps.n
        self.alen = lambda i: reps.at(i)
        A.register_segmap(st, self)


def repeat_info(st, reps):
    cache = st.ghost.get('repeatinfo', {})
    key = id(reps)
    if key not in cache:
        cache = dict(cache)
        cache[key] = (RepeatInfo(st, reps), reps)
        st.ghost['repeatinfo'] = cache
    return cache[key][0]


def array_fn(st, name, a, kind='real'):
    """Value of a (mathematical) function of a finite array, e.g. its sum or its
    logsumexp: a fresh constant per distinct array, related to the other
    applications of the same function on this path by extensionality (the value
    depends only on the first len(a) elements). No z3 lambdas / array theory."""
    if a.k == 'int' and kind == 'real':
        a = A.to_real(a)
    memo = {}
    probe = z3.simplify(a.at(A._PROBE))
    nn = z3.simplify(a.n)
    key = (name, A.canon_key(probe, memo), A.canon_key(nn, memo))
    apps = st.ghost.get('fn_apps', {})
    if key in apps:
        return apps[key][0]
    t = z3.Const(uid(name), A.sort_of(kind))
    for k2, (t2, a2, _, _) in apps.items():
        if k2[0] == name:
            st.assume(z3.Implies(A.arr_eq(a, a2), t == t2))
    apps = dict(apps)
    apps[key] = (t, a, probe, nn)
    st.ghost['fn_apps'] = apps
    return t


def sum_int(st, a):
    return array_fn(st, 'sum_int', a, 'int')


def sum_term(st, a):
    return array_fn(st, 'sum_int', a, 'int')


def lse_term(st, a):
    return array_fn(st, 'logsumexp', a, 'real')


def tuple_fn(st, name, arrays, scalars=(), kind='real'):
    """Value of a deterministic function of several arrays and scalars (e.g. a
    read-only accessor of an object): one fresh constant per distinct argument
    tuple, with extensionality between applications on this path."""
    memo = {}
    key = [name]
    for a in arrays:
        key.append(A.canon_key(z3.simplify(a.at(A._PROBE)), memo))
        key.append(A.canon_key(z3.simplify(a.n), memo))
    for x in scalars:
        key.append(A.canon_key(z3.simplify(x), memo))
    key = tuple(key)
    apps = st.ghost.get('tuple_apps', {})
    if key in apps:
        return apps[key][0]
    t = z3.Const(uid(name), A.sort_of(kind))
    for k2, (t2, arrs2, sc2) in apps.items():
        if k2[0] == name and len(arrs2) == len(arrays):
            same = [A.arr_eq(a, b) for a, b in zip(arrays, arrs2)] + \
                [x == y for x, y in zip(scalars, sc2)]
            st.assume(z3.Implies(z3.And(*same), t == t2))
    apps = dict(apps)
    apps[key] = (t, list(arrays), list(scalars))
    st.ghost['tuple_apps'] = apps
    return t
