"""Models of Python builtins and numpy/scipy operations over symbolic values.

Each model is the *assumed contract* of a library function (DESIGN.md 4.3). They
are listed mechanically in the evidence (``LIB_USED``) and conformance-tested
against real numpy in the thorough tier.
"""
import ast
import z3

from .core import (Sym, Arr, Arr2, LArr, SList, PyList, FlatList, ObjRec, Ref, ClassVal,
                   Opaque, OutsideSubset, Raised, fresh, fresh_fn, uid, I, B,
                   concrete_int, concrete_bool, kind_of, sort_of)
from . import arrays as A
from .arrays import zv

LIB_USED = set()

NEG_INF = z3.Real('NEG_INF')
POS_INF = z3.Real('POS_INF')
NAN = z3.Real('NAN')

# uninterpreted real functions
f_log = z3.Function('log', z3.RealSort(), z3.RealSort())
f_exp = z3.Function('exp', z3.RealSort(), z3.RealSort())
f_sqrt = z3.Function('sqrt', z3.RealSort(), z3.RealSort())
f_pow = z3.Function('pow', z3.RealSort(), z3.RealSort(), z3.RealSort())
f_floor = lambda x: z3.ToReal(z3.ToInt(x))
_ArrR = z3.ArraySort(z3.IntSort(), z3.RealSort())
f_lse = z3.Function('logsumexp', _ArrR, z3.IntSort(), z3.RealSort())
f_sumr = z3.Function('sum_real', _ArrR, z3.IntSort(), z3.RealSort())
f_amax = z3.Function('amax', _ArrR, z3.IntSort(), z3.RealSort())
f_amin = z3.Function('amin', _ArrR, z3.IntSort(), z3.RealSort())
f_nanmax = z3.Function('nanmax', _ArrR, z3.IntSort(), z3.RealSort())
f_median = z3.Function('median', _ArrR, z3.IntSort(), z3.RealSort())
_ArrI = z3.ArraySort(z3.IntSort(), z3.IntSort())
f_sumi = z3.Function('sum_int', _ArrI, z3.IntSort(), z3.IntSort())


class MaybeNone:
    """Value that is None iff `isnone` (z3 Bool) holds, else `val`."""

    def __init__(self, isnone, val):
        self.isnone = isnone
        self.val = val


def resolve(ex, st, v):
    """Strip MaybeNone (forking if undecided) and return v."""
    while isinstance(v, MaybeNone):
        if ex.decide(st, v.isnone):
            return None
        v = v.val
    return v


def as_lambda(a):
    i = z3.Int('i!lam')
    return z3.Lambda([i], a.at(i))


def is_scalar(v):
    return isinstance(v, (Sym, int, float, bool))


def promote(a, b):
    ka, kb = kind_of(a), kind_of(b)
    if ka == kb:
        return ka
    if {ka, kb} <= {'int', 'bool'}:
        return 'int'
    if {ka, kb} <= {'int', 'bool', 'real'}:
        return 'real'
    if 'fp' in (ka, kb) and {ka, kb} <= {'int', 'bool', 'real', 'fp'}:
        return 'fp'
    raise OutsideSubset('arithmetic on {} and {}'.format(ka, kb))


def scalar_arith(op, a, b):
    """z3-level arithmetic on two scalars (python consts or Sym)."""
    if isinstance(a, (int, float, bool)) and isinstance(b, (int, float, bool)) \
            and not isinstance(op, (ast.Div, ast.Pow)):
        try:
            return {ast.Add: lambda: a + b, ast.Sub: lambda: a - b,
                    ast.Mult: lambda: a * b, ast.FloorDiv: lambda: a // b,
                    ast.Mod: lambda: a % b}[type(op)]()
        except KeyError:
            pass
    if 'fp' in (kind_of(a), kind_of(b)):
        return fp_arith(op, a, b)
    if isinstance(op, ast.Div):
        ta, tb = zv(a, 'real'), zv(b, 'real')
        return Sym(ta / tb, 'real')
    if isinstance(op, ast.Pow):
        eb = concrete_int(b) if not isinstance(b, float) else (
            int(b) if float(b).is_integer() else None)
        k = kind_of(a)
        if k == 'bool':
            k = 'int'
        if eb is not None and 0 <= eb <= 4:
            ta = zv(a, k)
            r = zv(1, k)
            for _ in range(eb):
                r = r * ta
            return Sym(r, k)
        return Sym(f_pow(zv(a, 'real'), zv(b, 'real')), 'real')
    k = promote(a, b)
    if k == 'bool':
        k = 'int'
    ta, tb = zv(a, k), zv(b, k)
    if isinstance(op, ast.Add):
        return Sym(ta + tb, k)
    if isinstance(op, ast.Sub):
        return Sym(ta - tb, k)
    if isinstance(op, ast.Mult):
        return Sym(ta * tb, k)
    if isinstance(op, ast.FloorDiv):
        if k == 'int':
            return Sym(ta / tb, 'int')       # z3 int div; equals floor for tb > 0
        return Sym(f_floor(ta / tb), 'real')
    if isinstance(op, ast.Mod):
        if k == 'int':
            return Sym(ta % tb, 'int')
        # numpy/python float mod for positive divisor: a - floor(a/b)*b
        return Sym(ta - f_floor(ta / tb) * tb, 'real')
    raise OutsideSubset('operator {}'.format(type(op).__name__))


def fp_arith(op, a, b):
    """IEEE binary64, round-to-nearest-even; `% 1` with numpy npy_divmod
    semantics: m = fmod(a, 1) = a - trunc(a) (exact); if m < 0: m += 1.0
    (rounded); a zero remainder takes the sign of the divisor (+0.0)."""
    rm = z3.RNE()
    if isinstance(a, (int, bool)) and not isinstance(a, bool) and \
            isinstance(op, ast.Mult) and a in (1, -1):
        tb = zv(b, 'fp')
        return Sym(tb if a == 1 else z3.fpNeg(tb), 'fp')
    if isinstance(op, ast.Mult):
        # multiplication by an int-valued if-then-else tree of +-1 is exact:
        # distribute instead of bit-blasting a 53x53 multiplier
        for (u, v) in ((a, b), (b, a)):
            if isinstance(u, Sym) and u.k == 'int':
                r = _mul_pm1(z3.simplify(u.t), zv(v, 'fp'))
                if r is not None:
                    return Sym(r, 'fp')
    ta, tb = zv(a, 'fp'), zv(b, 'fp')
    if isinstance(op, ast.Add):
        return Sym(z3.fpAdd(rm, ta, tb), 'fp')
    if isinstance(op, ast.Sub):
        return Sym(z3.fpSub(rm, ta, tb), 'fp')
    if isinstance(op, ast.Mult):
        return Sym(z3.fpMul(rm, ta, tb), 'fp')
    if isinstance(op, ast.Div):
        return Sym(z3.fpDiv(rm, ta, tb), 'fp')
    if isinstance(op, ast.Mod):
        if not (isinstance(b, (int, float)) and float(b) == 1.0):
            raise OutsideSubset('binary64 modulo only modelled for divisor 1')
        one = z3.FPVal(1.0, z3.Float64())
        zero = z3.FPVal(0.0, z3.Float64())
        m = z3.fpSub(rm, ta, z3.fpRoundToIntegral(z3.RTZ(), ta))
        r = z3.If(z3.fpIsZero(m), zero,
                  z3.If(z3.fpLT(m, zero), z3.fpAdd(rm, m, one), m))
        return Sym(r, 'fp')
    raise OutsideSubset('binary64 operator {}'.format(type(op).__name__))


def _mul_pm1(t, x):
    if z3.is_int_value(t):
        if t.as_long() == 1:
            return x
        if t.as_long() == -1:
            return z3.fpNeg(x)
        return None
    if z3.is_app(t) and t.decl().kind() == z3.Z3_OP_ITE:
        c, p, q = t.children()
        rp, rq = _mul_pm1(p, x), _mul_pm1(q, x)
        if rp is None or rq is None:
            return None
        return z3.If(c, rp, rq)
    return None


def scalar_bool(op, a, b):
    ta, tb = B(a), B(b)
    if isinstance(op, ast.BitAnd):
        return Sym(z3.And(ta, tb), 'bool')
    if isinstance(op, ast.BitOr):
        return Sym(z3.Or(ta, tb), 'bool')
    if isinstance(op, ast.BitXor):
        return Sym(z3.Xor(ta, tb), 'bool')
    raise OutsideSubset('bool operator')


def lift2(ex, st, f, a, b, kres=None):
    """Apply scalar function f(Sym,Sym)->Sym elementwise with broadcasting."""
    if isinstance(a, Arr) and isinstance(b, Arr):
        ex.need(st)('broadcast_len', a.n == b.n)

        def fn(i):
            return f(Sym(a.at(i), a.k), Sym(b.at(i), b.k))
        probe = f(Sym(a.at(z3.IntVal(0)), a.k), Sym(b.at(z3.IntVal(0)), b.k))
        return Arr(a.n, lambda i: _t(fn(i)), kind_of(probe))
    if isinstance(a, Arr):
        probe = f(Sym(a.at(z3.IntVal(0)), a.k), b)
        return Arr(a.n, lambda i: _t(f(Sym(a.at(i), a.k), b)), kind_of(probe),
                   )
    if isinstance(b, Arr):
        probe = f(a, Sym(b.at(z3.IntVal(0)), b.k))
        return Arr(b.n, lambda i: _t(f(a, Sym(b.at(i), b.k))), kind_of(probe))
    if isinstance(a, Arr2) or isinstance(b, Arr2):
        z0 = z3.IntVal(0)
        if isinstance(a, Arr2) and isinstance(b, Arr2):
            ex.need(st)('broadcast_shape', z3.And(a.nr == b.nr, a.nc == b.nc))
            kk = kind_of(f(Sym(a.at(z0, z0), a.k), Sym(b.at(z0, z0), b.k)))
            return Arr2(a.nr, a.nc, lambda r, c: _t(f(
                Sym(a.at(r, c), a.k), Sym(b.at(r, c), b.k))), kk)
        if isinstance(a, Arr2):
            if is_scalar(b):
                kk = kind_of(f(Sym(a.at(z0, z0), a.k), b))
                return Arr2(a.nr, a.nc, lambda r, c: _t(f(
                    Sym(a.at(r, c), a.k), b)), kk)
        else:
            if is_scalar(a):
                kk = kind_of(f(a, Sym(b.at(z0, z0), b.k)))
                return Arr2(b.nr, b.nc, lambda r, c: _t(f(
                    a, Sym(b.at(r, c), b.k))), kk)
        raise OutsideSubset('2-D broadcasting form')
    return f(a, b)


def _t(v):
    if isinstance(v, Sym):
        return v.t
    if isinstance(v, bool):
        return z3.BoolVal(v)
    if isinstance(v, int):
        return z3.IntVal(v)
    if isinstance(v, float):
        return z3.RealVal(repr(v))
    raise OutsideSubset('scalar expected')


def _wrap(ex, st, v):
    if isinstance(v, (Arr, Arr2)):
        return st.alloc(v, 'a')
    return v


def binop(ex, st, op, a, b):
    a = resolve(ex, st, a)
    b = resolve(ex, st, b)
    da, db = ex.deref(st, a), ex.deref(st, b)
    if isinstance(da, str) and isinstance(db, str) and isinstance(op, ast.Add):
        return da + db
    if isinstance(da, str) or isinstance(db, str):
        return Opaque('str')
    if isinstance(da, PyList) and isinstance(db, PyList) and \
            isinstance(op, ast.Add):
        return st.alloc(PyList(da.items + db.items), 'list')
    if isinstance(da, SList) and isinstance(op, ast.Add):
        if isinstance(db, SList):
            return st.alloc(SList(
                da.n + db.n,
                lambda t: z3.If(t < da.n, da.at(t), db.at(t - da.n)), da.k), 'S')
        if isinstance(db, PyList):
            r = da
            for it in db.items:
                r = A.slist_append(r, it.t)
            return st.alloc(r, 'S')
    if isinstance(op, (ast.BitAnd, ast.BitOr, ast.BitXor)):
        r = lift2(ex, st, lambda x, y: scalar_bool(op, x, y), da, db)
        return _wrap(ex, st, r)
    h = ex.reg.binop_hook
    if h is not None:
        r = h(ex, st, op, da, db)
        if r is not NotImplemented:
            return _wrap(ex, st, r)
    r = lift2(ex, st, lambda x, y: scalar_arith(op, x, y), da, db)
    return _wrap(ex, st, r)


def unop(ex, st, op, v):
    v = resolve(ex, st, v)
    d = ex.deref(st, v)
    if isinstance(op, ast.Not):
        t = ex.truth(st, v)
        cb = concrete_bool(t)
        if cb is not None:
            return not cb
        return Sym(z3.Not(B(t)), 'bool')
    if isinstance(op, ast.USub):
        if isinstance(d, (int, float)) and not isinstance(d, bool):
            return -d
        if isinstance(d, Sym):
            if d.t.eq(POS_INF):
                return Sym(NEG_INF, 'real')
            return Sym(-d.t, d.k)
        if isinstance(d, Arr):
            return st.alloc(Arr(d.n, lambda i: -d.at(i), d.k), 'a')
        if isinstance(d, Arr2):
            return st.alloc(Arr2(d.nr, d.nc, lambda r, c: -d.at(r, c), d.k), 'a')
    if isinstance(op, ast.UAdd):
        return v
    if isinstance(op, ast.Invert):
        if isinstance(d, Arr) and d.k == 'bool':
            return st.alloc(A.mask_not(d), 'm')
        if isinstance(d, Sym) and d.k == 'bool':
            return Sym(z3.Not(d.t), 'bool')
        if isinstance(d, bool):
            return not d
    raise OutsideSubset('unary {} on {!r}'.format(type(op).__name__, d))


def scalar_compare(op, a, b):
    if isinstance(a, (int, float, bool, str)) and \
            isinstance(b, (int, float, bool, str)):
        return {ast.Eq: a == b, ast.NotEq: a != b, ast.Lt: a < b,
                ast.LtE: a <= b, ast.Gt: a > b, ast.GtE: a >= b}[type(op)]
    ka, kb = kind_of(a), kind_of(b)
    if ka == kb and ka not in ('int', 'real', 'bool'):
        ta, tb = a.t, b.t
        if isinstance(op, ast.Eq):
            return Sym(ta == tb, 'bool')
        if isinstance(op, ast.NotEq):
            return Sym(ta != tb, 'bool')
        raise OutsideSubset('ordering on sort ' + ka)
    k = promote(a, b)
    if k == 'bool':
        ta, tb = B(a), B(b)
        if isinstance(op, ast.Eq):
            return Sym(ta == tb, 'bool')
        if isinstance(op, ast.NotEq):
            return Sym(ta != tb, 'bool')
        k = 'int'
    ta, tb = zv(a, k), zv(b, k)
    if k == 'fp':
        t = {ast.Eq: lambda: z3.fpEQ(ta, tb), ast.NotEq: lambda: z3.fpNEQ(ta, tb),
             ast.Lt: lambda: z3.fpLT(ta, tb), ast.LtE: lambda: z3.fpLEQ(ta, tb),
             ast.Gt: lambda: z3.fpGT(ta, tb),
             ast.GtE: lambda: z3.fpGEQ(ta, tb)}[type(op)]()
        return Sym(t, 'bool')
    t = {ast.Eq: lambda: ta == tb, ast.NotEq: lambda: ta != tb,
         ast.Lt: lambda: ta < tb, ast.LtE: lambda: ta <= tb,
         ast.Gt: lambda: ta > tb, ast.GtE: lambda: ta >= tb}[type(op)]()
    return Sym(t, 'bool')


def logical_and(ex, st, a, b):
    ca, cb = concrete_bool(a), concrete_bool(b)
    if ca is not None and cb is not None:
        return ca and cb
    da, db = ex.deref(st, a), ex.deref(st, b)
    if isinstance(da, Arr) or isinstance(db, Arr):
        return _wrap(ex, st, lift2(ex, st, lambda x, y: scalar_bool(
            ast.BitAnd(), x, y), da, db))
    return Sym(z3.And(B(a), B(b)), 'bool')


def compare(ex, st, op, a, b, node):
    if isinstance(op, (ast.Is, ast.IsNot)):
        neg = isinstance(op, ast.IsNot)
        if b is None or a is None:
            x = a if b is None else b
            if isinstance(x, MaybeNone):
                t = x.isnone
                return Sym(z3.Not(t) if neg else t, 'bool')
            h = getattr(ex.reg, 'none_test', None)
            if h is not None and isinstance(x, Sym):
                t = h(ex, st, x)
                if t is not None:
                    return Sym(z3.Not(t) if neg else t, 'bool')
            r = x is None
            return (not r) if neg else r
        raise OutsideSubset('is comparison with non-None', node)
    a = resolve(ex, st, a)
    b = resolve(ex, st, b)
    da, db = ex.deref(st, a), ex.deref(st, b)
    if isinstance(op, (ast.In, ast.NotIn)):
        neg = isinstance(op, ast.NotIn)
        r = contains(ex, st, da, db, node)
        if isinstance(r, bool):
            return (not r) if neg else r
        return Sym(z3.Not(r) if neg else r, 'bool')
    h = ex.reg.compare_hook
    if h is not None:
        r = h(ex, st, op, da, db)
        if r is not NotImplemented:
            return r
    if a is None or b is None:
        if isinstance(op, ast.Eq):
            return a is None and b is None
        if isinstance(op, ast.NotEq):
            return not (a is None and b is None)
    r = lift2(ex, st, lambda x, y: scalar_compare(op, x, y), da, db)
    return _wrap(ex, st, r)


def contains(ex, st, item, coll, node):
    if is_sink(item):
        key = 'sinkmember:' + item.what
        if key not in st.ghost:
            st.ghost[key] = fresh('bool', 'sink_member')
        return st.ghost[key].t
    if isinstance(coll, (PyList, list, tuple)):
        items = coll.items if isinstance(coll, PyList) else list(coll)
        if not items:
            return False
        ors = []
        for it in items:
            c = scalar_compare(ast.Eq(), item, it) if not (
                item is None or it is None) else (item is None and it is None)
            cb = concrete_bool(c)
            if cb is True:
                return True
            if cb is None:
                ors.append(B(c))
        if not ors:
            return False
        return z3.Or(*ors)
    if is_sink(coll):
        return fresh('bool', 'in_sink').t
    if isinstance(coll, SList):
        if not isinstance(item, Sym) or item.k != coll.k:
            h = ex.reg.contains_hook
            if h is not None:
                return h(ex, st, item, coll, node)
            raise OutsideSubset('membership kinds', node)
        return A.exists_idx(coll.n, lambda i: coll.at(i) == item.t)
    h = ex.reg.contains_hook
    if h is not None:
        return h(ex, st, item, coll, node)
    raise OutsideSubset('membership test on {!r}'.format(coll), node)


# ---------------------------------------------------------------------------
# attribute access

def is_sink(d):
    return isinstance(d, Opaque) and d.what.startswith('sink')


def getattr_value(ex, st, o, name, node):
    o = resolve(ex, st, o)
    if is_sink(o):
        return Opaque(o.what)
    if isinstance(o, Lib):
        full = o.name + '.' + name
        if full == 'np.inf':
            return Sym(POS_INF, 'real')
        if full == 'np.nan':
            return Sym(NAN, 'real')
        if full == 'np.newaxis':
            return None
        if full == 'np.pi':
            return Sym(z3.Real('PI'), 'real')
        return Lib(full)
    d = ex.deref(st, o)
    h = ex.reg.getattr_hook
    if h is not None:
        r = h(ex, st, o, d, name, node)
        if r is not NotImplemented:
            return r
    if isinstance(d, ObjRec):
        if name in d.fields:
            return d.fields[name]
        q = ex.reg.find_method(d.cls, name)
        if q is not None:
            fs = ex.fe.get(q)
            if fs.kind == 'getter':
                return ex.reg.call_repo(ex, st, q, o, [], {}, node)
            return BoundMethod(o, name)
        raise Raised('AttributeError')
    if isinstance(d, ClassVal):
        if name == '__name__':
            return d.name
        return BoundMethod(o, name)
    if isinstance(d, Arr):
        if name == 'shape':
            return (Sym(d.n, 'int'),)
        if name == 'T':
            return o
        if name == 'dtype':
            return Opaque('dtype')
        return BoundMethod(o, name)
    if isinstance(d, Arr2):
        if name == 'shape':
            return (Sym(d.nr, 'int'), Sym(d.nc, 'int'))
        return BoundMethod(o, name)
    if isinstance(d, (PyList, LArr, SList, FlatList, Opaque, Sym, str)):
        if isinstance(d, Sym) and name == '__class__':
            return Opaque('class')
        return BoundMethod(o, name)
    raise OutsideSubset('attribute {} of {!r}'.format(name, d), node)


from .symexec import (BoundMethod, Lib, Closure, IterDom, NeedSplit,  # noqa: E402
                      PyCallable)


# ---------------------------------------------------------------------------
# subscripts

def subscript(ex, st, node):
    base = resolve(ex, st, ex.eval(node.value, st))
    d = ex.deref(st, base)
    sl = node.slice
    if is_sink(d):
        ex.eval(sl, st) if not isinstance(sl, ast.Slice) else None
        return Opaque(d.what)
    h = ex.reg.subscript_hook
    if h is not None:
        r = h(ex, st, base, d, sl, node)
        if r is not NotImplemented:
            return r
    need = ex.need(st)
    if isinstance(d, (tuple, list, PyList)):
        items = d.items if isinstance(d, PyList) else list(d)
        idx = ex.eval(sl, st)
        if isinstance(idx, slice):
            lo = None if idx.start is None else concrete_int(idx.start)
            hi = None if idx.stop is None else concrete_int(idx.stop)
            sp = None if idx.step is None else concrete_int(idx.step)
            if (idx.start is not None and lo is None) or (
                    idx.stop is not None and hi is None):
                raise OutsideSubset('symbolic slice of a python list', node)
            r = items[slice(lo, hi, sp)]
            return st.alloc(PyList(r), 'list') if not isinstance(d, tuple) \
                else tuple(r)
        c = concrete_int(idx)
        if c is None:
            raise OutsideSubset('symbolic index into a python list', node)
        if not -len(items) <= c < len(items):
            raise Raised('IndexError')
        return items[c]
    if isinstance(d, Arr):
        if isinstance(sl, ast.Tuple):
            # a[:, np.newaxis], a[..., i]
            return subscript_nd(ex, st, d, sl, node)
        idx = ex.eval(sl, st)
        return _wrap(ex, st, index_arr(ex, st, d, idx, node))
    if isinstance(d, Arr2):
        return _wrap(ex, st, subscript_arr2(ex, st, d, sl, node))
    if isinstance(d, LArr):
        idx = ex.eval(sl, st)
        if isinstance(idx, slice):
            raise OutsideSubset('slice of list of arrays', node)
        ii = A.norm_index(d.n, idx)
        need('list_index', z3.And(ii >= 0, ii < d.n))
        return st.alloc(d.elem(ii), 'e')
    if isinstance(d, SList):
        idx = ex.eval(sl, st)
        if isinstance(idx, slice):
            if idx.step is not None:
                raise OutsideSubset('step slice of list', node)
            a = Arr(d.n, d.fn, d.k)
            r = A.slice_arr(a, idx.start, idx.stop)
            return st.alloc(SList(r.n, r.fn, d.k), 'S')
        ii = A.norm_index(d.n, idx)
        need('list_index', z3.And(ii >= 0, ii < d.n))
        return Sym(d.at(ii), d.k)
    raise OutsideSubset('subscript of {!r}'.format(d), node)


def index_arr(ex, st, d, idx, node):
    need = ex.need(st)
    idx = resolve(ex, st, idx)
    di = ex.deref(st, idx)
    if di is Ellipsis:
        return d
    if isinstance(di, slice):
        if di.step is not None:
            if concrete_int(di.step) == -1 and di.start is None and \
                    di.stop is None:
                return A.reverse(d)
            raise OutsideSubset('slice step', node)
        return A.slice_arr(d, di.start, di.stop)
    if isinstance(di, Arr):
        if di.k == 'bool':
            return A.filter_mask(st, d, di, need)
        if di.k == 'int':
            return A.gather(st, d, di, need)
    if isinstance(di, (int, Sym)) and not isinstance(di, bool):
        t = A.index(st, d, di, need)
        return Sym(t, d.k)
    raise OutsideSubset('index {!r}'.format(di), node)


def subscript_nd(ex, st, d, sl, node):
    elts = sl.elts
    # a[:, np.newaxis] on 1-D -> column vector: keep as 1-D marked column
    if len(elts) == 2 and isinstance(elts[0], ast.Slice) and \
            elts[0].lower is None and elts[0].upper is None:
        v = ex.eval(elts[1], st)
        if v is None:
            return st.alloc(Arr(d.n, d.fn, d.k, tag='column'), 'col')
    raise OutsideSubset('n-d subscript on 1-D array', node)


def subscript_arr2(ex, st, d, sl, node):
    need = ex.need(st)
    if isinstance(sl, ast.Tuple) and len(sl.elts) == 2:
        r_, c_ = sl.elts
        full_r = (isinstance(r_, ast.Slice) and r_.lower is None and
                  r_.upper is None and r_.step is None) or (
            isinstance(r_, ast.Constant) and r_.value is Ellipsis)
        if full_r:
            c = resolve(ex, st, ex.eval(c_, st))
            dc = ex.deref(st, c)
            if isinstance(dc, (int, Sym)):
                cc = A.norm_index(d.nc, dc)
                need('col_index', z3.And(cc >= 0, cc < d.nc))
                return Arr(d.nr, lambda r: d.at(r, cc), d.k, view=True)
            if isinstance(dc, Arr) and dc.k == 'int':
                need('col_index', A.forall_idx(dc.n, lambda j: z3.And(
                    dc.at(j) >= 0, dc.at(j) < d.nc)))
                return Arr2(d.nr, dc.n, lambda r, c: d.at(r, dc.at(c)), d.k)
            if isinstance(dc, Arr) and dc.k == 'bool':
                need('mask_len', dc.n == d.nc)
                cnt, sel, rank = A.sel_of(st, dc)
                return Arr2(d.nr, cnt, lambda r, c: d.at(r, sel(c)), d.k)
        raise OutsideSubset('2-D subscript form', node)
    idx = resolve(ex, st, ex.eval(sl, st))
    di = ex.deref(st, idx)
    if isinstance(di, Arr) and di.k == 'bool':
        return A.filter_mask2(st, d, di, need)
    if isinstance(di, Arr) and di.k == 'int':
        need('row_index', A.forall_idx(di.n, lambda j: z3.And(
            di.at(j) >= 0, di.at(j) < d.nr)))
        return Arr2(di.n, d.nc, lambda r, c: d.at(di.at(r), c), d.k)
    if isinstance(di, slice):
        if di.step is not None:
            raise OutsideSubset('slice step', node)
        rows = Arr(d.nr, lambda r: r, 'int')
        s = A.slice_arr(rows, di.start, di.stop)
        return Arr2(s.n, d.nc, lambda r, c: d.at(s.at(r), c), d.k)
    if isinstance(di, (int, Sym)):
        rr = A.norm_index(d.nr, di)
        need('row_index', z3.And(rr >= 0, rr < d.nr))
        return Arr(d.nc, lambda c: d.at(rr, c), d.k, view=True)
    raise OutsideSubset('2-D subscript {!r}'.format(di), node)


def assign_subscript(ex, st, tgt, v):
    need = ex.need(st)
    base = resolve(ex, st, ex.eval(tgt.value, st))
    d = ex.deref(st, base)
    if is_sink(d):
        if not isinstance(tgt.slice, ast.Slice):
            ex.eval(tgt.slice, st)
        st.ghost['sink_writes'] = st.ghost.get('sink_writes', 0) + 1
        return
    v = resolve(ex, st, v)
    dv = ex.deref(st, v)
    h = ex.reg.setitem_hook
    if h is not None:
        if h(ex, st, base, d, tgt.slice, v, tgt) is not NotImplemented:
            return
    if isinstance(d, PyList):
        idx = concrete_int(ex.eval(tgt.slice, st))
        if idx is None:
            raise OutsideSubset('symbolic index store into python list', tgt)
        if not -len(d.items) <= idx < len(d.items):
            raise Raised('IndexError')
        d.items[idx] = v
        return
    if isinstance(d, LArr):
        idx = ex.eval(tgt.slice, st)
        ii = A.norm_index(d.n, idx)
        need('list_index', z3.And(ii >= 0, ii < d.n))
        if not isinstance(dv, Arr):
            raise OutsideSubset('store non-array into list of arrays', tgt)
        if dv.k != d.k:
            raise OutsideSubset('store {} array into list of {}'.format(
                dv.k, d.k), tgt)
        st.set_cell(base, A.larr_store(d, ii, dv))
        sh = getattr(ex.reg, 'store_hook', None)
        if sh is not None:
            sh(ex, st, base, ii)
        return
    if isinstance(d, Arr):
        if d.view:
            raise OutsideSubset('write through a view', tgt)
        idx = resolve(ex, st, ex.eval(tgt.slice, st))
        di = ex.deref(st, idx)
        if di is Ellipsis:
            raise OutsideSubset('a[...] = v', tgt)
        if isinstance(di, Arr) and di.k == 'bool':
            if isinstance(dv, Arr):
                st.set_cell(base, A.assign_mask_array(st, d, di, dv, need))
            else:
                st.set_cell(base, A.assign_mask_scalar(st, d, di, dv, need))
            return
        if isinstance(di, Arr) and di.k == 'int':
            if isinstance(dv, Arr):
                raise OutsideSubset('a[idx] = array', tgt)
            new, hit = A.assign_idx_scalar(st, d, di, dv, need)
            st.set_cell(base, new)
            return
        if isinstance(di, (int, Sym)):
            ii = A.norm_index(d.n, di)
            need('index_in_range', z3.And(ii >= 0, ii < d.n))
            st.set_cell(base, A.store(d, ii, dv))
            sh = getattr(ex.reg, 'store_hook', None)
            if sh is not None:
                sh(ex, st, base, ii)
            return
        raise OutsideSubset('array store index {!r}'.format(di), tgt)
    if isinstance(d, Arr2):
        sl = tgt.slice
        if isinstance(sl, ast.Tuple) and len(sl.elts) == 2:
            r_, c_ = sl.elts
            full_r = (isinstance(r_, ast.Slice) and r_.lower is None and
                      r_.upper is None) or (
                isinstance(r_, ast.Constant) and r_.value is Ellipsis)
            if full_r:
                c = resolve(ex, st, ex.eval(c_, st))
                dc = ex.deref(st, c)
                if isinstance(dc, (int, Sym)):
                    cc = A.norm_index(d.nc, dc)
                    need('col_index', z3.And(cc >= 0, cc < d.nc))
                    if isinstance(dv, Arr):
                        need('col_len', dv.n == d.nr)
                        st.set_cell(base, Arr2(d.nr, d.nc, lambda r, c: z3.If(
                            c == cc, dv.at(r), d.at(r, c)), d.k))
                    else:
                        t = zv(dv, d.k)
                        st.set_cell(base, Arr2(d.nr, d.nc, lambda r, c: z3.If(
                            c == cc, t, d.at(r, c)), d.k))
                    return
                if isinstance(dc, Arr) and dc.k == 'int' and \
                        isinstance(dv, Arr2):
                    # points[:, idx] = block  (idx strictly increasing index set
                    # is required by the theory: stated as obligation)
                    need('col_block_shape',
                         z3.And(dv.nr == d.nr, dv.nc == dc.n))
                    need('col_index', A.forall_idx(dc.n, lambda j: z3.And(
                        dc.at(j) >= 0, dc.at(j) < d.nc)))
                    pos = fresh_fn(['int'], 'int', 'colpos')
                    j, c = A.qi('j'), A.qi('c')
                    st.assume(A.QForAll([j], z3.Implies(
                        z3.And(j >= 0, j < dc.n), pos(dc.at(j)) == j),
                        patterns=[dc.at(j)]))
                    ishit = fresh_fn(['int'], 'bool', 'colhit')
                    st.assume(A.QForAll([j], z3.Implies(
                        z3.And(j >= 0, j < dc.n), ishit(dc.at(j))),
                        patterns=[dc.at(j)]))
                    st.assume(A.QForAll([c], z3.Implies(
                        ishit(c), z3.And(pos(c) >= 0, pos(c) < dc.n,
                                         dc.at(pos(c)) == c)),
                        patterns=[ishit(c)]))
                    st.set_cell(base, Arr2(d.nr, d.nc, lambda r, c: z3.If(
                        ishit(c), dv.at(r, pos(c)), d.at(r, c)), d.k))
                    return
        raise OutsideSubset('2-D store form', tgt)
    raise OutsideSubset('subscript store on {!r}'.format(d), tgt)


# ---------------------------------------------------------------------------
# comprehensions

def _mentions(f, k):
    seen = set()
    todo = [f]
    while todo:
        e = todo.pop()
        i = e.get_id()
        if i in seen:
            continue
        seen.add(i)
        if e.eq(k):
            return True
        if z3.is_quantifier(e):
            todo.append(e.body())
        else:
            todo.extend(e.children())
    return False


def comprehension(ex, st, node):
    if len(node.generators) != 1 or node.generators[0].ifs:
        raise OutsideSubset('comprehension form', node)
    gen = node.generators[0]
    itv = ex.eval(gen.iter, st)
    dom = ex.iter_domain(st, itv, node)
    saved = dict(st.env)
    try:
        if isinstance(dom, list):
            out = []
            for item in dom:
                ex.assign(gen.target, item, st)
                out.append(ex.eval(node.elt, st))
            return st.alloc(PyList(out), 'list')
        # symbolic comprehension: evaluate the element at a symbolic index
        k = z3.Int(uid('c'))
        idx_assump = z3.And(k >= 0, k < dom.n)
        st.pc.append(idx_assump)
        saved_ci = st.ghost.get('comp_index')
        st.ghost['comp_index'] = k
        n_pc = len(st.pc)
        try:
            ex.assign(gen.target, dom.bind(k), st)
            e = ex.eval(node.elt, st)
        finally:
            if saved_ci is None:
                st.ghost.pop('comp_index', None)
            else:
                st.ghost['comp_index'] = saved_ci
        e = resolve(ex, st, e)
        de = ex.deref(st, e)
        # remove the index assumption again (axioms introduced stay: they are
        # definitional and guarded by fresh symbols)
        st.pc = [f for f in st.pc if f is not idx_assump]
        # facts that a model explicitly registered as parametric in the
        # comprehension index (symbols applied to k) hold for every index
        kq = z3.Int(uid('kq'))
        for f in st.ghost.pop('comp_facts', ()):
            st.assume(z3.ForAll([kq], z3.Implies(
                z3.And(kq >= 0, kq < dom.n), z3.substitute(f, (k, kq)))))
        if isinstance(de, (Sym, int, float, bool)):
            kk = kind_of(de)
            t = zv(de, kk)
            return st.alloc(Arr(dom.n, lambda i: z3.substitute(t, (k, I(i))),
                                kk), 'comp')
        if isinstance(de, Arr):
            n_t = de.n
            probe_j = z3.Int(uid('cj'))
            body = de.at(probe_j)
            return st.alloc(LArr(
                dom.n, lambda i: z3.substitute(n_t, (k, I(i))),
                lambda i, j: z3.substitute(body, (k, I(i)), (probe_j, I(j))),
                de.k), 'comp')
        if isinstance(de, (tuple, Opaque)):
            return Opaque('list')
        raise OutsideSubset('comprehension element {!r}'.format(de), node)
    finally:
        st.env = saved


# ---------------------------------------------------------------------------
# calls

def call(ex, st, node):
    f = ex.eval(node.func, st)
    args = []
    for a in node.args:
        if isinstance(a, ast.Starred):
            v = ex.deref(st, ex.eval(a.value, st))
            if isinstance(v, PyList):
                v = v.items
            if isinstance(v, Opaque):
                args.append(Opaque('*args'))
                continue
            if not isinstance(v, (list, tuple)):
                # unpacking of an abstract sequence: handed to the model of the
                # callee through the ghost state
                st.ghost['star_value'] = v
                args.append(Opaque('*args'))
                continue
            args.extend(v)
        else:
            args.append(ex.eval(a, st))
    kwargs = {}
    for kw in node.keywords:
        if kw.arg is None:
            v = ex.eval(kw.value, st)
            kwargs['**'] = v
        else:
            kwargs[kw.arg] = ex.eval(kw.value, st)
    return apply(ex, st, f, args, kwargs, node)


def _kwguard(h, kwargs, name, node):
    """a model only means what it says for the keywords it reads"""
    if not kwargs:
        return
    from .kwguard import unknown_keywords
    bad = unknown_keywords(h, kwargs)
    if bad:
        raise OutsideSubset('{}(..., {}=...): keyword not covered by the '
                            'library model'.format(name, ', '.join(bad)), node)


def apply(ex, st, f, args, kwargs, node):
    if isinstance(f, Lib):
        LIB_USED.add(f.name)
        h = ex.reg.lib.get(f.name)
        if h is None:
            raise OutsideSubset('library function {} has no model'.format(
                f.name), node)
        _kwguard(h, kwargs, f.name, node)
        return h(ex, st, args, kwargs, node)
    if isinstance(f, BoundMethod):
        return call_method(ex, st, f.recv, f.name, args, kwargs, node)
    if isinstance(f, ClassVal):
        # constructor call cls()
        q = ex.reg.find_method(f.name, '__init__')
        rec = ObjRec(f.name)
        ref = st.alloc(rec, f.name)
        if q is not None:
            ex.reg.call_repo(ex, st, q, ref, args, kwargs, node)
        return ref
    if isinstance(f, Closure):
        return ex.call_closure(st, f, args)
    if isinstance(f, PyCallable):
        return f.fn(ex, st, args, kwargs, node)
    if is_sink(f):
        return Opaque(f.what)
    if isinstance(f, Opaque):
        h = ex.reg.opaque_call
        if h is not None:
            return h(ex, st, f, args, kwargs, node)
    raise OutsideSubset('call of {!r}'.format(f), node)


def call_method(ex, st, recv, name, args, kwargs, node):
    recv = resolve(ex, st, recv)
    d = ex.deref(st, recv)
    if isinstance(d, ObjRec):
        q = ex.reg.find_method(d.cls, name)
        if q is None:
            raise Raised('AttributeError')
        return ex.reg.call_repo(ex, st, q, recv, args, kwargs, node)
    if isinstance(d, ClassVal):
        q = ex.reg.find_method(d.name, name)
        if q is None:
            raise OutsideSubset('no method {}.{}'.format(d.name, name), node)
        return ex.reg.call_repo(ex, st, q, recv, args, kwargs, node)
    if isinstance(d, Sym) and (d.k, name) in ex.reg.sort_methods:
        LIB_USED.add('{}.{}'.format(d.k, name))
        return ex.reg.sort_methods[(d.k, name)](ex, st, d, args, kwargs, node)
    if isinstance(d, Opaque):
        key = '{}.{}'.format(d.what, name)
        h = ex.reg.lib.get(key)
        if h is not None:
            LIB_USED.add(key)
            _kwguard(h, kwargs, key, node)
            return h(ex, st, [recv] + list(args), kwargs, node)
        raise OutsideSubset('method {} has no model'.format(key), node)
    if isinstance(d, PyList):
        if name == 'append':
            d.items.append(args[0])
            return None
        if name == 'extend':
            o = ex.deref(st, args[0])
            d.items.extend(o.items if isinstance(o, PyList) else list(o))
            return None
        if name == 'pop':
            i = concrete_int(args[0]) if args else -1
            if i is None:
                raise OutsideSubset('symbolic pop on python list', node)
            if not d.items or not -len(d.items) <= i < len(d.items):
                raise Raised('IndexError')
            return d.items.pop(i)
        if name == 'index':
            for i, it in enumerate(d.items):
                c = concrete_bool(scalar_compare(ast.Eq(), it, args[0]))
                if c is True:
                    return i
                if c is None:
                    raise OutsideSubset('symbolic list.index', node)
            raise Raised('ValueError')
    if isinstance(d, FlatList):
        if name == 'append':
            a = ex.deref(st, resolve(ex, st, args[0]))
            if not isinstance(a, Arr):
                raise OutsideSubset('append non-array to list of arrays', node)
            if a.k != d.flat.k:
                raise OutsideSubset('append {} array to list of {}'.format(
                    a.k, d.flat.k), node)
            st.set_cell(recv, FlatList(d.cnt + 1, A.concat2(d.flat, a)))
            return None
    if isinstance(d, LArr):
        if name == 'append':
            a = ex.deref(st, resolve(ex, st, args[0]))
            if not isinstance(a, Arr):
                raise OutsideSubset('append non-array to list of arrays', node)
            if a.k != d.k:
                if d.k == 'real' and a.k == 'int':
                    a = A.to_real(a)
                else:
                    raise OutsideSubset('append {} array to list of {}'.format(
                        a.k, d.k), node)
            st.set_cell(recv, A.larr_append(d, a))
            return None
        if name == 'pop':
            ii = A.norm_index(d.n, args[0] if args else -1)
            ex.need(st)('pop_index', z3.And(ii >= 0, ii < d.n))
            r = d.elem(ii)
            st.set_cell(recv, A.larr_pop(d, ii))
            return st.alloc(r, 'popped')
    if isinstance(d, SList):
        if name == 'append':
            v = args[0]
            if not isinstance(v, Sym) or v.k != d.k:
                raise OutsideSubset('append {!r} to list of {}'.format(v, d.k),
                                    node)
            st.set_cell(recv, A.slist_append(d, v.t))
            return None
        if name == 'pop':
            ii = A.norm_index(d.n, args[0] if args else -1)
            ex.need(st)('pop_index', z3.And(ii >= 0, ii < d.n))
            r = Sym(d.at(ii), d.k)
            st.set_cell(recv, A.slist_pop(d, ii))
            return r
        h = ex.reg.slist_method
        if h is not None:
            r = h(ex, st, recv, d, name, args, kwargs, node)
            if r is not NotImplemented:
                return r
    if isinstance(d, (Arr, Arr2)):
        if name == 'astype':
            return astype(ex, st, d, args[0])
        if name == 'copy':
            return st.alloc(d, 'copy')
    if isinstance(d, str):
        if name == 'format':
            h = ex.reg.str_format
            if h is not None:
                return h(ex, st, d, args, node)
            return Opaque('str')
    raise OutsideSubset('method {} on {!r}'.format(name, d), node)


def astype(ex, st, d, ty):
    ty = ex.deref(st, ty)
    name = getattr(ty, 'name', ty)
    if name in ('int', 'builtins.int'):
        if isinstance(d, Arr):
            if d.k == 'bool':
                return st.alloc(Arr(d.n, lambda i: z3.If(
                    d.at(i), z3.IntVal(1), z3.IntVal(0)), 'int'), 'a')
            if d.k == 'int':
                return st.alloc(d, 'a')
            if d.k == 'real':
                # only used on values that are integral (np.floor(...)):
                # truncation == floor there; stated as obligation
                ex.need(st)('astype_int_of_integral', A.forall_idx(
                    d.n, lambda i: z3.IsInt(d.at(i))))
                return st.alloc(Arr(d.n, lambda i: z3.ToInt(d.at(i)), 'int'),
                                'a')
    raise OutsideSubset('astype({!r})'.format(ty))
