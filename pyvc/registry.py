"""Registry: library models, repo-function contracts, hooks."""
import ast
import z3

from .core import spec as _spec

from .core import (Sym, Arr, Arr2, LArr, SList, PyList, ObjRec, Ref, ClassVal,
                   Opaque, OutsideSubset, Raised, State, fresh, uid, I, B)
from .symexec import Lib, View, BoundMethod


class FnContract:
    """Contract of a repo function.

    params   : parameter names after self/cls, with defaults dict
    pre      : callable(V) -> [(name, formula)]      (V.env has self + params)
    post     : callable(Vold, Vnew, result) -> [(name, formula)]
    mod_fields: names of fields of ``self`` the function may modify
    mod_ghost : ghost locations it may modify
    mod_args  : parameter names whose array cell may be modified in place
    result   : callable(ex, st, V) -> fresh result value
    raises   : optional callable(Vold, Vnew, exc) -> [(name, formula)] for
               exceptional exits; when None any raise under `pre` is an
               obligation failure ("no_raise").
    """

    def __init__(self, qualname, params=(), defaults=None, pre=None, post=None,
                 mod_fields=(), mod_ghost=(), mod_args=(), result=None,
                 raises=None, loops=None, note='', loop_ghost=()):
        self.qualname = qualname
        self.params = list(params)
        self.defaults = dict(defaults or {})
        self.pre = pre or (lambda V: [])
        self.post = post or (lambda Vo, Vn, r: [])
        self.mod_fields = tuple(mod_fields)
        self.mod_ghost = tuple(mod_ghost)
        self.mod_args = tuple(mod_args)
        # ghost locations updated precisely by `result` (not havoced at a call
        # site) that still belong to the modifies set of an enclosing loop
        self.loop_ghost = tuple(loop_ghost)
        self.result = result or (lambda ex, st, V: None)
        self.raises = raises
        self.loops = loops or {}
        self.note = note
        self.uses = 0

    def bind(self, args, kwargs):
        vals = {}
        if len(args) > len(self.params):
            raise OutsideSubset('too many arguments for ' + self.qualname)
        for p, a in zip(self.params, args):
            vals[p] = a
        for k, v in kwargs.items():
            if k not in self.params:
                raise OutsideSubset('unexpected keyword {} for {}'.format(
                    k, self.qualname))
            vals[k] = v
        for p in self.params:
            if p not in vals:
                if p not in self.defaults:
                    raise OutsideSubset('missing argument {} for {}'.format(
                        p, self.qualname))
                vals[p] = self.defaults[p]
        return vals


class Registry:
    def __init__(self):
        self.lib = {}
        self.contracts = {}
        self.classes = {}        # class name -> module
        self.sort_methods = {}
        self.inline = set()
        self.mutating_methods = {'append', 'pop', 'extend', 'shuffle', 'resize',
                                 'sort', 'insert', 'remove', 'clear', 'update',
                                 'reset', 'create_dataset', 'create_group'}
        self.globals = {}
        self.method_effects = {}  # method name -> dict(fields=[..], ghost=[..])
        self.ghost_havoc = {}     # ghost name -> callable(ex, st)
        self.with_exit = None
        self.setattr_hook = None
        self.getattr_hook = None
        self.subscript_hook = None
        self.setitem_hook = None
        self.binop_hook = None
        self.compare_hook = None
        self.contains_hook = None
        self.opaque_call = None
        self.slist_method = None
        self.str_format = None
        self.fe = None
        self.inlined = set()
        from . import lib as _lib
        _lib.install(self)

    # -- names
    def global_name(self, name):
        if name in self.globals:
            return self.globals[name]
        if name in self.classes:
            return ClassVal(name)
        if name in self.lib:
            return Lib(name)
        return None

    def add_class(self, name, module):
        self.classes[name] = module

    def find_method(self, cls, name):
        mod = self.classes.get(cls)
        if mod is None:
            return None
        for q in ('{}.{}.{}'.format(mod, cls, name),):
            if self.fe is not None and q in self.fe.functions:
                return q
        return None

    # -- effects for loop mod-sets
    def call_effects(self, ex, callnode):
        f = callnode.func
        if not isinstance(f, ast.Attribute):
            return None
        eff = self.method_effects.get(f.attr)
        if eff is None:
            return None
        out = dict(fields=[], ghost=list(eff.get('ghost', ())), arg_cells=[])
        if isinstance(f.value, ast.Name):
            for fld in eff.get('fields', ()):
                out['fields'].append((f.value.id, fld))
        for pos in eff.get('arg_cells', ()):
            if pos < len(callnode.args) and isinstance(callnode.args[pos],
                                                       ast.Name):
                out['arg_cells'].append(callnode.args[pos].id)
            elif pos < len(callnode.args) and isinstance(
                    callnode.args[pos], ast.Attribute) and isinstance(
                    callnode.args[pos].value, ast.Name):
                out['fields'].append((callnode.args[pos].value.id,
                                      callnode.args[pos].attr))
        return out

    def havoc_ghost(self, ex, st, g):
        h = self.ghost_havoc.get(g)
        if h is None:
            raise OutsideSubset('no havoc rule for ghost ' + g)
        h(ex, st)

    # -- repo calls
    def add_contract(self, c):
        self.contracts[c.qualname] = c
        name = c.qualname.rsplit('.', 1)[1]
        if name.endswith('setter'):
            return
        eff = self.method_effects.setdefault(name, dict(fields=[], ghost=[],
                                                        arg_cells=[]))
        for f in c.mod_fields:
            if f not in eff['fields']:
                eff['fields'].append(f)
        for g in tuple(c.mod_ghost) + tuple(c.loop_ghost):
            if g not in eff['ghost']:
                eff['ghost'].append(g)
        for a in c.mod_args:
            pos = c.params.index(a)
            if pos not in eff['arg_cells']:
                eff['arg_cells'].append(pos)

    def call_repo(self, ex, st, qualname, recv, args, kwargs, node):
        c = self.contracts.get(qualname)
        if c is not None:
            return self.apply_contract(ex, st, c, recv, args, kwargs, node)
        if qualname in self.inline:
            return self.inline_call(ex, st, qualname, recv, args, kwargs, node)
        raise OutsideSubset('call to {} which has no contract'.format(qualname),
                            node)

    def inline_call(self, ex, st, qualname, recv, args, kwargs, node):
        """Execute a (small, loop-free, single-path) callee in place."""
        fs = self.fe.get(qualname)
        self.inlined.add(qualname)
        a = fs.node.args
        params = [x.arg for x in a.args]
        defaults = a.defaults
        vals = {}
        pos = list(args)
        if fs.kind in ('method', 'getter', 'setter', 'classmethod'):
            pos = [recv] + pos
        for p, v in zip(params, pos):
            vals[p] = v
        for k, v in kwargs.items():
            vals[k] = v
        ndef = len(defaults)
        for i, p in enumerate(params):
            if p not in vals:
                j = i - (len(params) - ndef)
                if j < 0:
                    raise OutsideSubset('missing argument ' + p, node)
                vals[p] = ex.eval(defaults[j], st)
        saved_env = st.env
        st.env = vals
        if ex.inline_depth > 6:
            raise OutsideSubset('inline depth', node)
        ex.inline_depth += 1
        try:
            outs = ex.run_function(fs, st, self.inline_loops.get(qualname))
        finally:
            ex.inline_depth -= 1
        if len(outs) != 1:
            # forks inside an inlined callee: re-raise as split on first decision
            raise OutsideSubset('inlined callee {} forked into {} paths'.format(
                qualname, len(outs)), node)
        o = outs[0]
        # transfer state back
        st.heap, st.pc, st.ghost, st.trace = o.heap, o.pc, o.ghost, o.trace
        st.env = saved_env
        if o.status == 'raise':
            raise Raised(o.exc)
        return o.retval

    inline_loops = {}

    def apply_contract(self, ex, st, c, recv, args, kwargs, node):
        c.uses += 1
        vals = c.bind(args, kwargs)
        env = dict(vals)
        env['self'] = recv
        saved = st.env
        st.env = env
        try:
            name = c.qualname.split('.', 2)[-1]
            for (nm, f) in _spec(c.pre, View(ex, st)):
                ex.cx.oblige(st, 'call_pre/{}/{}@L{}'.format(
                    name, nm, getattr(node, 'lineno', 0)), f, kind='call_pre')
            old = st.copy()
            old.env = dict(env)
            # havoc the frame
            fields = set(('self', f) for f in c.mod_fields)
            ex.havoc(st, set(c.mod_args), fields, set(c.mod_ghost),
                     set(c.mod_args))
            res = _spec(c.result, ex, st, View(ex, st))
            for (nm, f) in _spec(c.post, View(ex, old), View(ex, st), res):
                st.assume(f)
        finally:
            st.env = saved
        return res
