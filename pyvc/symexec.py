"""Symbolic executor over the real Python AST (DESIGN.md 4.1/4.2).

Executes statements of a function taken from /repo on symbolic states, forking
at undecided branches, replacing calls to repo functions by their contracts,
cutting loops at invariants, and emitting named obligations.
"""
import ast
import z3

from .core import spec as _spec
from .core import (Sym, Arr, Arr2, LArr, SList, PyList, FlatList, ObjRec, Ref, ClassVal,
                   Opaque, State, OutsideSubset, Raised, fresh, uid, I, B,
                   concrete_int, concrete_bool, kind_of, sort_of,
                   counter_get, counter_set)
from . import arrays as A
from .frontend import loops_of


class NeedSplit(Exception):
    def __init__(self, cond):
        Exception.__init__(self, 'split')
        self.cond = cond


class BoundMethod:
    def __init__(self, recv, name):
        self.recv = recv
        self.name = name


class Lib:
    """A library callable addressed by dotted name (np.sum, logsumexp...)."""

    def __init__(self, name):
        self.name = name

    def __repr__(self):
        return 'Lib({})'.format(self.name)


class LoopLocal:
    """A name first bound inside a loop body, seen after the loop: it is bound
    iff the loop ran at least once (`cond`); its value is not tracked."""

    def __init__(self, name, cond):
        self.name = name
        self.cond = cond


class PyCallable:
    """A callable supplied by a theory (contract of an opaque function)."""

    def __init__(self, fn, name='callable'):
        self.fn = fn
        self.name = name


class Closure:
    def __init__(self, node, env):
        self.node = node
        self.env = env


class IterDom:
    """Abstract iteration domain: n iterations, bind(k) -> python value(s)."""

    def __init__(self, n, bind):
        self.n = n
        self.bind = bind


class LoopSpec:
    def __init__(self, inv=None, mode='inv', extra_mods=(), unroll=False,
                 exit_assume=None, prepare=None, step=None, h5_fams=None):
        self.h5_fams = h5_fams    # HDF5 name families the loop appends to
        self.prepare = prepare    # callable(ex, st): abstract lists before loop
        self.step = step          # callable(Vstart, Vend) -> [(name, formula)]
        self.inv = inv            # callable(V) -> list[(name, z3 bool)]
        self.mode = mode          # 'inv' | 'havoc'
        self.extra_mods = tuple(extra_mods)
        self.unroll = unroll
        self.exit_assume = exit_assume


class View:
    """Convenience accessor for contracts / invariants."""

    def __init__(self, ex, st):
        self.ex = ex
        self.st = st

    def raw(self, path):
        parts = path.split('.')
        if parts[0] not in self.st.env:
            # a contract names a local that the code (no longer) defines at
            # this point: the obligation cannot be generated -> reported as
            # not discharged (in_subset), never a crash of the checker
            raise OutsideSubset('the contract refers to `{}`, which the code '
                                'does not define here'.format(parts[0]))
        v = self.st.env[parts[0]]
        for p in parts[1:]:
            v = self.st.getfield(v, p)
        return v

    def __call__(self, path):
        return self.ex.deref(self.st, self.raw(path))

    def has(self, path):
        try:
            self.raw(path)
            return True
        except (KeyError, Raised, OutsideSubset):
            return False

    def int(self, path):
        return I(self.raw(path))

    def bool(self, path):
        return B(self.raw(path))

    def ghost(self, name):
        return self.st.ghost[name]

    def k(self, ordinal):
        return self.st.env['__k{}'.format(ordinal)].t


class Executor:
    def __init__(self, cx, frontend, registry):
        self.cx = cx
        self.fe = frontend
        self.reg = registry
        self.loop_specs = {}
        self.loop_ord = {}
        self.cur_fn = None
        self.decide_cache = {}
        self.inline_depth = 0
        self.stats = dict(paths=0, splits=0, stmts=0)
        self.branch_cov = set()    # (qualname, lineno, taken) seen so far
        self.branch_all = set()    # all (qualname, lineno, taken) in bodies

    # ------------------------------------------------------------------
    # utilities
    def deref(self, st, v):
        if isinstance(v, Ref):
            c = st.cell(v)
            return c
        return v

    def need(self, st):
        def f(clause, goal):
            # an obligation already established on this path is not repeated
            if z3.is_expr(goal):
                key = A.canon_key(z3.simplify(goal))
                done = st.ghost.get('proved', frozenset())
                if key in done:
                    return
                st.ghost['proved'] = done | {key}
            self.cx.oblige(st, 'no_raise/{}@L{}'.format(clause, self.cx.line),
                           goal, kind='no_raise')
        return f

    def box(self, st, v, hint='a'):
        if isinstance(v, (Arr, Arr2, LArr, SList, PyList, ObjRec, FlatList)):
            return st.alloc(v, hint)
        return v

    def decide(self, st, cond):
        """Return python bool for a branch condition, or raise NeedSplit."""
        c = concrete_bool(cond)
        if c is not None:
            return c
        t = B(cond)
        ts = z3.simplify(t)
        for (d, val) in st.ghost.get('decisions', ()):
            if d.eq(ts):
                return val
        nts = z3.simplify(z3.Not(ts))
        for f in reversed(st.pc[-12:]):
            fs = z3.simplify(f) if z3.is_expr(f) else f
            if fs.eq(ts):
                return True
            if fs.eq(nts):
                return False
        raise NeedSplit(ts)

    def feasible(self, st):
        s = z3.Solver()
        s.set('timeout', 400)
        for f in st.pc:
            s.add(f)
        r = s.check()
        return r != z3.unsat

    # ------------------------------------------------------------------
    # function entry
    def run_function(self, fsrc, st, loop_specs=None):
        """Execute fsrc.node's body on st; returns list of final states."""
        saved = (self.cur_fn, self.loop_specs, self.loop_ord)
        saved_alias = getattr(self, 'alias', {})
        self.cur_fn = fsrc
        # locals renamed with respect to the source the contracts were written
        # against are additionally bound under their reference name
        self.alias = self.fe.local_aliases(fsrc.qualname)
        for cur, ref in self.alias.items():
            if cur in st.env and ref not in st.env:
                st.env[ref] = st.env[cur]
        self.loop_specs = loop_specs or {}
        self.loop_ord = {id(n): k for k, n in enumerate(loops_of(fsrc.node))}
        for n in ast.walk(fsrc.node):
            if isinstance(n, ast.If):
                key = ast.unparse(n.test)[:80]
                self.branch_all.add((fsrc.qualname, key, True))
                self.branch_all.add((fsrc.qualname, key, False))
        try:
            body = fsrc.node.body
            if (body and isinstance(body[0], ast.Expr) and
                    isinstance(body[0].value, ast.Constant) and
                    isinstance(body[0].value.value, str)):
                body = body[1:]
            outs = self.exec_block(body, [st])
        finally:
            self.cur_fn, self.loop_specs, self.loop_ord = saved
            self.alias = saved_alias
        for s in outs:
            if s.status == 'normal':
                s.status = 'return'
                s.retval = None
            if s.status in ('break', 'continue'):
                raise OutsideSubset('break/continue escaped function')
        self.stats['paths'] += len(outs)
        return outs

    # ------------------------------------------------------------------
    # statements
    def exec_block(self, stmts, states):
        cur = list(states)
        for node in stmts:
            nxt = []
            for st in cur:
                if st.status != 'normal':
                    nxt.append(st)
                else:
                    nxt.extend(self.exec_stmt(node, st))
            cur = nxt
        return cur

    def exec_stmt(self, node, st):
        """Execute one statement with fork-on-demand."""
        self.stats['stmts'] += 1
        work = [st]
        done = []
        cnt0 = counter_get()
        while work:
            s0 = work.pop()
            s = s0.copy()
            counter_set(cnt0)
            n_obl = len(self.cx.obligations)
            n_cov = len(self.cx.covers)
            names = dict(self.cx._names)
            self.cx.line = node.lineno
            try:
                res = self._stmt(node, s)
                done.extend(res)
            except NeedSplit as e:
                del self.cx.obligations[n_obl:]
                del self.cx.covers[n_cov:]
                self.cx._names = names
                self.stats['splits'] += 1
                for val in (True, False):
                    b = s0.copy()
                    b.assume(e.cond if val else z3.Not(e.cond))
                    b.ghost['decisions'] = tuple(
                        b.ghost.get('decisions', ())) + ((e.cond, val),)
                    b.trace.append('L{}:{}'.format(node.lineno, val))
                    if self.feasible(b):
                        work.append(b)
            except Raised as e:
                s.status = 'raise'
                s.exc = e.exc
                done.append(s)
        return done

    def _stmt(self, node, st):
        m = getattr(self, 'st_' + type(node).__name__, None)
        if m is None:
            raise OutsideSubset('statement {}'.format(type(node).__name__), node)
        return m(node, st)

    def st_Expr(self, node, st):
        self.eval(node.value, st)
        return [st]

    def st_Pass(self, node, st):
        return [st]

    def st_Global(self, node, st):
        raise OutsideSubset('global', node)

    def st_Assign(self, node, st):
        v = self.eval(node.value, st)
        for tgt in node.targets:
            self.assign(tgt, v, st)
        return [st]

    def st_AugAssign(self, node, st):
        from .npmodel import binop
        tgt = node.target
        cur = self.eval(tgt, st)
        rhs = self.eval(node.value, st)
        # in-place on a boxed array: update the cell (aliases see it)
        if isinstance(cur, Ref) and isinstance(st.cell(cur), (Arr, Arr2)):
            newv = binop(self, st, node.op, st.cell(cur), self.deref(st, rhs))
            if isinstance(newv, Ref):
                newv = st.cell(newv)
            st.set_cell(cur, newv)
            return [st]
        newv = binop(self, st, node.op, cur, rhs)
        self.assign(tgt, newv, st)
        return [st]

    def st_Return(self, node, st):
        st.retval = None if node.value is None else self.eval(node.value, st)
        st.status = 'return'
        return [st]

    def st_Raise(self, node, st):
        exc = node.exc
        name = None
        if isinstance(exc, ast.Call):
            for a in exc.args:
                self.eval(a, st)
            exc = exc.func
        if isinstance(exc, ast.Name):
            name = exc.id
        if name is None:
            raise OutsideSubset('raise form', node)
        raise Raised(name)

    def st_Assert(self, node, st):
        v = self.eval(node.test, st)
        if st.ghost.get('assert_raises'):
            if self.decide(st, v):
                return [st]
            raise Raised('AssertionError')
        self.cx.oblige(st, 'assert_holds@L{}'.format(node.lineno), B(v),
                       kind='assert')
        return [st]

    def st_If(self, node, st):
        c = self.eval(node.test, st)
        c = self.truth(st, c)
        taken = self.decide(st, c)
        if self.cur_fn is not None:
            self.branch_cov.add((self.cur_fn.qualname,
                                 ast.unparse(node.test)[:80], taken))
        if taken:
            return self.exec_block(node.body, [st])
        return self.exec_block(node.orelse, [st])

    def st_With(self, node, st):
        for item in node.items:
            ce = item.context_expr
            ok = (isinstance(ce, ast.Call) and isinstance(ce.func, ast.Name) and
                  ce.func.id == 'threadpool_limits')
            if ok:
                continue
            v = self.eval(ce, st)
            if item.optional_vars is not None:
                self.assign(item.optional_vars, v, st)
            st.ghost.setdefault('with_stack', ())
        outs = self.exec_block(node.body, [st])
        for item in node.items:
            ce = item.context_expr
            if isinstance(ce, ast.Call) and isinstance(ce.func, ast.Name) and \
                    ce.func.id == 'threadpool_limits':
                continue
            h = self.reg.with_exit
            if h is not None:
                for o in outs:
                    h(self, o, item)
        return outs

    def st_Try(self, node, st):
        # supported shape 1: try: assert X  except AssertionError: raise E
        if (len(node.handlers) == 1 and not node.finalbody and not node.orelse):
            h = node.handlers[0]
            names = []
            if isinstance(h.type, ast.Name):
                names = [h.type.id]
            elif isinstance(h.type, ast.Tuple):
                names = [e.id for e in h.type.elts if isinstance(e, ast.Name)]
            if names:
                st.ghost['assert_raises'] = True
                outs = self.exec_block(node.body, [st])
                res = []
                for o in outs:
                    o.ghost['assert_raises'] = False
                    if o.status == 'raise' and o.exc in names:
                        o.status = 'normal'
                        o.exc = None
                        res.extend(self.exec_block(h.body, [o]))
                    else:
                        res.append(o)
                return res
        raise OutsideSubset('try shape', node)

    def st_Break(self, node, st):
        st.status = 'break'
        return [st]

    def st_Continue(self, node, st):
        st.status = 'continue'
        return [st]

    def st_FunctionDef(self, node, st):
        st.env[node.name] = Closure(node, None)
        return [st]

    # ------------------------------------------------------------------
    # loops
    def loop_spec(self, node):
        k = self.loop_ord.get(id(node))
        return k, self.loop_specs.get(k)

    def iter_domain(self, st, v, node):
        """Turn an evaluated iterable into python list (concrete) or IterDom."""
        v = self.deref(st, v)
        h = getattr(self.reg, 'iter_hook', None)
        if h is not None:
            r = h(self, st, v, node)
            if r is not None:
                return r
        if isinstance(v, (list, tuple)):
            return list(v)
        if isinstance(v, PyList):
            return list(v.items)
        if isinstance(v, IterDom):
            n = concrete_int(v.n)
            if n is not None and n <= 8 and getattr(v, 'unrollable', False):
                return [v.bind(z3.IntVal(i)) for i in range(n)]
            return v
        if isinstance(v, Arr):
            return IterDom(v.n, lambda k: Sym(v.at(k), v.k))
        if isinstance(v, SList):
            return IterDom(v.n, lambda k: Sym(v.at(k), v.k))
        if isinstance(v, LArr):
            return IterDom(v.n, lambda k: v.elem(k))
        if isinstance(v, Arr2):
            return IterDom(v.nr, lambda k: Arr(v.nc, lambda c: v.at(k, c), v.k))
        raise OutsideSubset('iteration over {!r}'.format(v), node)

    def st_For(self, node, st):
        if node.orelse:
            raise OutsideSubset('for-else', node)
        k, spec = self.loop_spec(node)
        itv = self.eval(node.iter, st)
        dom = self.iter_domain(st, itv, node)
        if isinstance(dom, list):
            cur = [st]
            out = []
            for item in dom:
                nxt = []
                for s in cur:
                    self.assign(node.target, item, s)
                    for r in self.exec_block(node.body, [s]):
                        if r.status == 'break':
                            r.status = 'normal'
                            out.append(r)
                        elif r.status == 'continue':
                            r.status = 'normal'
                            nxt.append(r)
                        elif r.status == 'normal':
                            nxt.append(r)
                        else:
                            out.append(r)
                cur = nxt
            return out + cur
        if spec is None:
            raise OutsideSubset(
                'loop {} at line {} needs an invariant'.format(k, node.lineno),
                node)
        return self.symbolic_loop(node, st, k, spec, dom)

    def st_While(self, node, st):
        if node.orelse:
            raise OutsideSubset('while-else', node)
        k, spec = self.loop_spec(node)
        if spec is None:
            raise OutsideSubset(
                'loop {} at line {} needs an invariant'.format(k, node.lineno),
                node)
        return self.symbolic_loop(node, st, k, spec, None)

    def mod_set(self, node):
        """Syntactic over-approximation of what a loop body may modify:
        local names, fields of objects reachable by name (``self.x``), and the
        ghost/field effects declared by contracts of the calls it contains."""
        names, fields, ghosts, cells = set(), set(), set(), set()
        fcells = set()     # fields whose cell content (not binding) changes
        lit_iter = {}
        ex = self

        def target(t):
            if isinstance(t, ast.Name):
                names.add(t.id)
            elif isinstance(t, (ast.Tuple, ast.List)):
                for e in t.elts:
                    target(e)
            elif isinstance(t, ast.Attribute):
                if isinstance(t.value, ast.Name):
                    fields.add((t.value.id, t.attr))
                else:
                    h = getattr(ex.reg, 'nested_attr_effect', None)
                    g = h(ast.unparse(t)) if h is not None else None
                    if g is None:
                        raise OutsideSubset('assignment target', t)
                    for x in g:
                        ghosts.add(x)
            elif isinstance(t, ast.Subscript):
                base = t.value
                while isinstance(base, ast.Subscript):
                    base = base.value
                if isinstance(base, ast.Name):
                    names.add(base.id)
                    cells.add(base.id)
                elif isinstance(base, ast.Attribute) and \
                        isinstance(base.value, ast.Name):
                    fcells.add((base.value.id, base.attr))
                elif isinstance(base, ast.Call):
                    # e.g. group['x'][...] = v : effect via the contract/model
                    ghosts.add('h5')
                else:
                    raise OutsideSubset('assignment target', t)
            elif isinstance(t, ast.Starred):
                target(t.value)
            else:
                raise OutsideSubset('assignment target', t)

        class V(ast.NodeVisitor):
            def visit_Assign(self, n):
                for t in n.targets:
                    target(t)
                self.generic_visit(n)

            def visit_AugAssign(self, n):
                target(n.target)
                self.generic_visit(n)

            def visit_For(self, n):
                target(n.target)
                if isinstance(n.target, ast.Name) and isinstance(
                        n.iter, ast.List) and all(
                        isinstance(e, ast.Constant) for e in n.iter.elts):
                    lit_iter[n.target.id] = [e.value for e in n.iter.elts]
                self.generic_visit(n)

            def visit_With(self, n):
                for it in n.items:
                    if it.optional_vars is not None:
                        target(it.optional_vars)
                self.generic_visit(n)

            def visit_Call(self, n):
                f = n.func
                if isinstance(f, ast.Name) and f.id == 'setattr':
                    o, key = n.args[0], n.args[1]
                    if isinstance(o, ast.Name):
                        if isinstance(key, ast.Constant):
                            fields.add((o.id, key.value))
                        elif isinstance(key, ast.Name) and key.id in lit_iter:
                            for kk in lit_iter[key.id]:
                                fields.add((o.id, kk))
                        else:
                            raise OutsideSubset('setattr with dynamic key', n)
                if isinstance(f, ast.Attribute):
                    recv = f.value
                    mut = ex.reg.mutating_methods
                    if f.attr in mut:
                        if isinstance(recv, ast.Name):
                            names.add(recv.id)
                            cells.add(recv.id)
                        elif isinstance(recv, ast.Attribute) and isinstance(
                                recv.value, ast.Name):
                            fcells.add((recv.value.id, recv.attr))
                    eff = ex.reg.call_effects(ex, n)
                    if eff:
                        for fld in eff.get('fields', ()):
                            fields.add(fld)
                        for g in eff.get('ghost', ()):
                            ghosts.add(g)
                        for nm in eff.get('arg_cells', ()):
                            names.add(nm)
                            cells.add(nm)
                self.generic_visit(n)

        v = V()
        for s in node.body:
            v.visit(s)
        if isinstance(node, ast.For):
            target(node.target)
        self._fcells = fcells - fields
        return names, fields | fcells, ghosts, cells

    def havoc_value(self, st, v, hint):
        """Fresh value of the same shape/type as v."""
        if isinstance(v, Ref):
            c = st.cell(v)
            if isinstance(c, ObjRec):
                return v
            if type(c).__name__ == 'H5Group':
                st.set_cell(v, self.havoc_value(st, c, hint))
                return v
            return st.alloc(self.havoc_value(st, c, hint), hint)
        if isinstance(v, Sym):
            return fresh(v.k, hint)
        if isinstance(v, bool):
            return fresh('bool', hint)
        if isinstance(v, int):
            return fresh('int', hint)
        if isinstance(v, float):
            return fresh('real', hint)
        if isinstance(v, Arr):
            return A.fresh_arr(st, v.k, hint)
        if isinstance(v, Arr2):
            return A.fresh_arr2(st, None, v.nc, hint, v.k)
        if isinstance(v, LArr):
            return A.fresh_larr(st, v.k, hint)
        if isinstance(v, SList):
            return A.fresh_slist(st, v.k, hint)
        if isinstance(v, FlatList):
            c = z3.Int(uid(hint + '_cnt'))
            st.assume(c >= 0)
            return FlatList(c, A.fresh_arr(st, v.flat.k, hint + '_flat'))
        if type(v).__name__ == 'H5Group':
            h = getattr(self.reg, 'h5_havoc', None)
            if h is None:
                raise OutsideSubset('havoc of an HDF5 group')
            return h(self, st, v, hint)
        if isinstance(v, PyList):
            raise OutsideSubset('havoc of a concrete python list ({}) - give '
                                'the loop an abstraction'.format(hint))
        if v is None or isinstance(v, (str, Opaque, ClassVal, tuple,
                                      LoopLocal)):
            return v
        raise OutsideSubset('havoc of {!r}'.format(v))

    def havoc(self, st, names, fields, ghosts, cells=(), fcells=()):
        from .npmodel import MaybeNone
        for nm in sorted(names):
            if nm in st.env:
                v = st.env[nm]
                if v is None:
                    continue
                if isinstance(v, MaybeNone):
                    if nm in cells and isinstance(v.val, Ref):
                        st.set_cell(v.val, self.havoc_value(
                            st, st.cell(v.val), nm))
                        continue
                    raise OutsideSubset('havoc of optional value ' + nm)
                if nm in cells and isinstance(v, Ref) and not isinstance(
                        st.cell(v), ObjRec):
                    # in-place mutation: havoc the cell itself (aliases follow)
                    st.set_cell(v, self.havoc_value(st, st.cell(v), nm))
                else:
                    st.env[nm] = self.havoc_value(st, v, nm)
                    ref = getattr(self, 'alias', {}).get(nm)
                    if ref is not None:
                        st.env[ref] = st.env[nm]
        for (o, f) in sorted(fields):
            if o in st.env and isinstance(st.env[o], Ref):
                rec = st.cell(st.env[o])
                if isinstance(rec, ObjRec) and f in rec.fields:
                    v = rec.fields[f]
                    if isinstance(v, MaybeNone):
                        if isinstance(v.val, Ref):
                            st.set_cell(v.val, self.havoc_value(
                                st, st.cell(v.val), f))
                            if (o, f) not in fcells:
                                rec.fields[f] = MaybeNone(
                                    z3.Bool(uid(f + '_none')), v.val)
                        continue
                    if isinstance(v, Ref) and not isinstance(st.cell(v), ObjRec):
                        st.set_cell(v, self.havoc_value(st, st.cell(v), f))
                    else:
                        rec.fields[f] = self.havoc_value(st, v, f)
        for g in sorted(ghosts):
            self.reg.havoc_ghost(self, st, g)

    def symbolic_loop(self, node, st, k, spec, dom):
        cx = self.cx
        kname = '__k{}'.format(k)
        is_for = isinstance(node, ast.For)
        pre = 'loop{}@L{}/'.format(k, node.lineno)
        names, fields, ghosts, cells = self.mod_set(node)
        for m in spec.extra_mods:
            if isinstance(m, tuple):
                fields.add(m)
            elif m.startswith('$'):
                ghosts.add(m[1:])
            else:
                names.add(m)
        if spec.prepare is not None:
            _spec(spec.prepare, self, st)
        # 1. invariant holds on entry
        st.env[kname] = Sym(z3.IntVal(0), 'int')
        if spec.inv is not None:
            for (nm, f) in _spec(spec.inv, View(self, st)):
                cx.oblige(st, pre + 'init/' + nm, f, kind='loop_init')
        # 2. arbitrary iteration
        h = st
        names.discard(kname)
        if is_for:
            # loop targets are bound per iteration, no need to havoc
            pass
        h.ghost['h5_havoc_fams'] = spec.h5_fams
        self.havoc(h, names, fields, ghosts, cells, self._fcells)
        kk = z3.Int(uid('k'))
        h.env[kname] = Sym(kk, 'int')
        h.assume(kk >= 0)
        if is_for:
            h.assume(kk <= dom.n)
        if spec.inv is not None:
            for (nm, f) in _spec(spec.inv, View(self, h)):
                h.assume(f)
        outs = []
        # body
        b = h.copy()
        b.trace.append('loop{}:body'.format(k))
        body_states = []
        if is_for:
            b.assume(kk < dom.n)
            self.assign(node.target, dom.bind(kk), b)
            body_states = [b]
        else:
            body_states = self.branch_on(node.test, b, True, node)
        results = []
        for bs in body_states:
            if self.feasible(bs):
                start = bs.copy()
                start.env = dict(bs.env)
                for r in self.exec_block(node.body, [bs]):
                    r.ghost = dict(r.ghost)
                    r.ghost['__iter_start'] = start
                    results.append(r)
        for r in results:
            start = r.ghost.pop('__iter_start', None)
            if spec.step is not None and start is not None and \
                    r.status in ('normal', 'continue', 'break'):
                self.cx.line = node.lineno
                for (nm, f) in _spec(spec.step, View(self, start),
                                     View(self, r)):
                    cx.oblige(r, pre + 'step/' + nm, f, kind='loop_step')
            if r.status in ('normal', 'continue'):
                r.status = 'normal'
                r.env[kname] = Sym(kk + 1, 'int')
                if spec.inv is not None:
                    self.cx.line = node.lineno
                    for (nm, f) in _spec(spec.inv, View(self, r)):
                        cx.oblige(r, pre + 'preserve/' + nm, f,
                                  kind='loop_preserve')
            elif r.status == 'break':
                r.status = 'normal'
                outs.append(r)
            else:
                outs.append(r)
        # exit
        e = h.copy()
        e.trace.append('loop{}:exit'.format(k))
        if is_for:
            e.assume(kk == dom.n)
            exits = [e]
        else:
            exits = self.branch_on(node.test, e, False, node)
        for x in exits:
            for nm in sorted(names):
                if nm not in x.env and nm != kname and is_for:
                    x.env[nm] = LoopLocal(nm, kk >= 1)
                    ref = getattr(self, 'alias', {}).get(nm)
                    if ref is not None:
                        x.env[ref] = x.env[nm]
            if spec.exit_assume is not None:
                for f in _spec(spec.exit_assume, View(self, x)):
                    x.assume(f)
            if self.feasible(x):
                outs.append(x)
        return outs

    def branch_on(self, test, st, want, node):
        """States (forks of st) in which `test` evaluates to `want`."""
        work = [st]
        res = []
        cnt0 = counter_get()
        while work:
            s0 = work.pop()
            s = s0.copy()
            counter_set(cnt0)
            n_obl = len(self.cx.obligations)
            names = dict(self.cx._names)
            try:
                c = self.truth(s, self.eval(test, s))
                cb = concrete_bool(c)
                if cb is None:
                    s.assume(B(c) if want else z3.Not(B(c)))
                    res.append(s)
                elif cb == want:
                    res.append(s)
            except NeedSplit as e:
                del self.cx.obligations[n_obl:]
                self.cx._names = names
                for val in (True, False):
                    b = s0.copy()
                    b.assume(e.cond if val else z3.Not(e.cond))
                    b.ghost['decisions'] = tuple(
                        b.ghost.get('decisions', ())) + ((e.cond, val),)
                    if self.feasible(b):
                        work.append(b)
        return res

    # ------------------------------------------------------------------
    # assignment
    def assign(self, tgt, v, st):
        from . import npmodel
        if isinstance(tgt, ast.Name):
            st.env[tgt.id] = v
            ref = getattr(self, 'alias', {}).get(tgt.id)
            if ref is not None:
                st.env[ref] = v
            return
        if isinstance(tgt, (ast.Tuple, ast.List)):
            vv = self.deref(st, v)
            if isinstance(vv, PyList):
                vv = vv.items
            if not isinstance(vv, (tuple, list)) or len(vv) != len(tgt.elts):
                raise OutsideSubset('tuple unpacking of {!r}'.format(vv), tgt)
            for t, x in zip(tgt.elts, vv):
                self.assign(t, x, st)
            return
        if isinstance(tgt, ast.Attribute):
            o = self.eval(tgt.value, st)
            h = self.reg.setattr_hook
            if h is not None and h(self, st, o, tgt.attr, v, tgt):
                return
            if not (isinstance(o, Ref) and isinstance(st.cell(o), ObjRec)):
                raise OutsideSubset('attribute assignment on {!r}'.format(o),
                                    tgt)
            q = self.reg.find_method(st.cell(o).cls, tgt.attr + '.setter')
            if q is not None:
                self.reg.call_repo(self, st, q, o, [v], {}, tgt)
                return
            st.setfield(o, tgt.attr, v)
            return
        if isinstance(tgt, ast.Subscript):
            npmodel.assign_subscript(self, st, tgt, v)
            return
        raise OutsideSubset('assignment target {}'.format(type(tgt).__name__),
                            tgt)

    # ------------------------------------------------------------------
    # expressions
    def truth(self, st, v):
        """Python truthiness of a value as python bool or Sym bool."""
        v = self.deref(st, v) if isinstance(v, Ref) else v
        if v is None:
            return False
        if isinstance(v, (bool, int, float, str)):
            return bool(v)
        if isinstance(v, Sym):
            if v.k == 'bool':
                return v
            if v.k == 'int':
                return Sym(v.t != 0, 'bool')
            if v.k == 'real':
                return Sym(v.t != 0, 'bool')
        if isinstance(v, (list, tuple)):
            return len(v) > 0
        if isinstance(v, PyList):
            return len(v.items) > 0
        if isinstance(v, Opaque) and v.what.startswith('sink'):
            # one arbitrary truth value per external object kind and path
            key = 'sinktruth:' + v.what
            if key not in st.ghost:
                st.ghost[key] = fresh('bool', 'sink_truth')
            return st.ghost[key]
        if isinstance(v, (ObjRec, Opaque, ClassVal, Closure, Lib)):
            return True
        if isinstance(v, Arr):
            # numpy: truth value of 1-element array; reject others
            raise OutsideSubset('truth value of an array')
        raise OutsideSubset('truth value of {!r}'.format(v))

    def eval(self, node, st):
        m = getattr(self, 'ev_' + type(node).__name__, None)
        if m is None:
            raise OutsideSubset('expression {}'.format(type(node).__name__),
                                node)
        return m(node, st)

    def ev_Constant(self, node, st):
        return node.value

    def ev_Name(self, node, st):
        if node.id in st.env:
            v = st.env[node.id]
            if isinstance(v, LoopLocal):
                # NameError unless the loop that binds it ran at least once
                self.need(st)('name_bound_' + v.name, v.cond)
                return Opaque('sink:loop_local')
            return v
        g = self.reg.global_name(node.id)
        if g is not None:
            return g
        raise OutsideSubset('unknown name {}'.format(node.id), node)

    def ev_Tuple(self, node, st):
        return tuple(self.eval(e, st) for e in node.elts)

    def ev_List(self, node, st):
        return st.alloc(PyList([self.eval(e, st) for e in node.elts]), 'list')

    def ev_Dict(self, node, st):
        if node.keys:
            raise OutsideSubset('dict display', node)
        return Opaque('dict')

    def ev_JoinedStr(self, node, st):
        raise OutsideSubset('f-string', node)

    def ev_Attribute(self, node, st):
        from . import npmodel
        o = self.eval(node.value, st)
        return npmodel.getattr_value(self, st, o, node.attr, node)

    def ev_UnaryOp(self, node, st):
        from . import npmodel
        v = self.eval(node.operand, st)
        return npmodel.unop(self, st, node.op, v)

    def ev_BinOp(self, node, st):
        from . import npmodel
        a = self.eval(node.left, st)
        b = self.eval(node.right, st)
        return npmodel.binop(self, st, node.op, a, b)

    def ev_BoolOp(self, node, st):
        is_and = isinstance(node.op, ast.And)
        acc = None   # z3 bool accumulated so far (all symbolic operands)
        pushed = []
        try:
            for i, e in enumerate(node.values):
                v = self.eval(e, st)
                last = i == len(node.values) - 1
                t = self.truth(st, v)
                cb = concrete_bool(t)
                if cb is not None:
                    if is_and and not cb:
                        return False if acc is None else False
                    if (not is_and) and cb:
                        return True
                    if last:
                        if acc is None:
                            return v if not isinstance(v, Sym) else cb
                        return Sym(acc, 'bool')
                    continue
                tb = B(t)
                acc = tb if acc is None else (
                    z3.And(acc, tb) if is_and else z3.Or(acc, tb))
                # evaluate the rest under the short-circuit assumption
                tmp = tb if is_and else z3.Not(tb)
                st.pc.append(tmp)
                pushed.append(tmp)
            return Sym(acc, 'bool')
        finally:
            # remove exactly the temporary assumptions (axioms of fresh symbols
            # introduced while evaluating later operands stay)
            for tmp in pushed:
                self._drop(st, tmp)

    def _drop(self, st, tmp):
        for i in range(len(st.pc) - 1, -1, -1):
            if st.pc[i] is tmp:
                del st.pc[i]
                return

    def ev_Compare(self, node, st):
        from . import npmodel
        left = self.eval(node.left, st)
        res = None
        for op, rnode in zip(node.ops, node.comparators):
            right = self.eval(rnode, st)
            c = npmodel.compare(self, st, op, left, right, node)
            if res is None:
                res = c
            else:
                res = npmodel.logical_and(self, st, res, c)
            left = right
        return res

    def ev_IfExp(self, node, st):
        c = self.truth(st, self.eval(node.test, st))
        cb = concrete_bool(c)
        if cb is None:
            # scalar select if both sides are pure scalars
            t1, t2 = B(c), z3.Not(B(c))
            try:
                st.pc.append(t1)
                a = self.eval(node.body, st)
            finally:
                self._drop(st, t1)
            try:
                st.pc.append(t2)
                b = self.eval(node.orelse, st)
            finally:
                self._drop(st, t2)
            if isinstance(a, (Sym, int, float, bool)) and isinstance(
                    b, (Sym, int, float, bool)):
                ka, kb = kind_of(a), kind_of(b)
                k = ka if ka == kb else 'real'
                return Sym(z3.If(B(c), A.zv(a, k), A.zv(b, k)), k)
            if self.decide(st, c):
                return a
            return b
        return self.eval(node.body if cb else node.orelse, st)

    def ev_Lambda(self, node, st):
        return Closure(node, dict(st.env))

    def ev_Subscript(self, node, st):
        from . import npmodel
        return npmodel.subscript(self, st, node)

    def ev_Slice(self, node, st):
        lo = None if node.lower is None else self.eval(node.lower, st)
        hi = None if node.upper is None else self.eval(node.upper, st)
        step = None if node.step is None else self.eval(node.step, st)
        return slice(lo, hi, step)

    def ev_ListComp(self, node, st):
        from . import npmodel
        return npmodel.comprehension(self, st, node)

    def ev_GeneratorExp(self, node, st):
        from . import npmodel
        return npmodel.comprehension(self, st, node)

    def ev_Starred(self, node, st):
        raise OutsideSubset('starred expression', node)

    def ev_Call(self, node, st):
        from . import npmodel
        return npmodel.call(self, st, node)

    # ------------------------------------------------------------------
    # calling user lambdas / closures (used by map / comprehension models)
    def call_closure(self, st, clo, args):
        node = clo.node
        if isinstance(node, ast.Lambda):
            saved = st.env
            env = dict(clo.env if clo.env is not None else st.env)
            params = [a.arg for a in node.args.args]
            if len(params) != len(args):
                raise OutsideSubset('lambda arity')
            env.update(zip(params, args))
            st.env = env
            try:
                return self.eval(node.body, st)
            finally:
                st.env = saved
        raise OutsideSubset('call of nested def')
