"""Verify one function of /repo against its contract (callee side)."""
import traceback
import z3

from .core import spec as _spec

from .core import (State, Sym, Arr, Arr2, LArr, SList, PyList, ObjRec, Ref,
                   FlatList,
                   OutsideSubset, Raised, I, B)
from .symexec import View
from . import arrays as A


def short(qualname):
    return qualname.split('.', 2)[-1] if qualname.startswith(
        'nautilus.bounds.') else qualname.split('.', 1)[-1]


def values_equal(ex, so, vo, sn, vn):
    """z3 formula: value vo in state so equals vn in state sn (None if
    identical by construction)."""
    if vo is vn:
        if isinstance(vo, Ref):
            co, cn = so.heap.get(vo.oid), sn.heap.get(vn.oid)
            if co is cn:
                return None
            return cells_equal(ex, so, co, sn, cn)
        return None
    if isinstance(vo, Ref) and isinstance(vn, Ref):
        return cells_equal(ex, so, so.cell(vo), sn, sn.cell(vn))
    if isinstance(vo, Ref) and isinstance(vn, (Arr, Arr2, LArr, SList)):
        return cells_equal(ex, so, so.cell(vo), sn, vn)
    if isinstance(vn, Ref) and isinstance(vo, (Arr, Arr2, LArr, SList)):
        return cells_equal(ex, so, vo, sn, sn.cell(vn))
    if isinstance(vo, Sym) and isinstance(vn, Sym):
        if vo.t.eq(vn.t):
            return None
        return vo.t == vn.t
    if isinstance(vo, (int, float, bool, str, type(None))) and \
            isinstance(vn, (int, float, bool, str, type(None))):
        return z3.BoolVal(vo == vn and type(vo) == type(vn))
    if isinstance(vo, (int, bool)) and isinstance(vn, Sym):
        return A.zv(vo, vn.k) == vn.t
    from .npmodel import MaybeNone
    if isinstance(vo, MaybeNone) and isinstance(vn, MaybeNone):
        inner = values_equal(ex, so, vo.val, sn, vn.val)
        f = vo.isnone == vn.isnone
        if inner is not None:
            f = z3.And(f, z3.Implies(z3.Not(vo.isnone), inner))
        return f
    return z3.BoolVal(False)


def cells_equal(ex, so, co, sn, cn):
    if co is cn:
        return None
    if isinstance(co, Arr) and isinstance(cn, Arr):
        return A.arr_eq(co, cn)
    if isinstance(co, Arr2) and isinstance(cn, Arr2):
        r, c = A.qi('r'), A.qi('c')
        return z3.And(co.nr == cn.nr, co.nc == cn.nc, z3.ForAll(
            [r, c], z3.Implies(z3.And(r >= 0, r < co.nr, c >= 0, c < co.nc),
                               co.at(r, c) == cn.at(r, c))))
    if isinstance(co, LArr) and isinstance(cn, LArr):
        i, j = A.qi('i'), A.qi('j')
        return z3.And(co.n == cn.n, z3.ForAll([i], z3.Implies(
            z3.And(i >= 0, i < co.n), co.alen(i) == cn.alen(i))),
            z3.ForAll([i, j], z3.Implies(
                z3.And(i >= 0, i < co.n, j >= 0, j < co.alen(i)),
                co.at(i, j) == cn.at(i, j))))
    if isinstance(co, (SList, Arr)) and isinstance(cn, (SList, Arr)) and \
            co.k == cn.k:
        return z3.And(co.n == cn.n, A.forall_idx(
            co.n, lambda i: co.at(i) == cn.at(i)))
    if isinstance(co, SList) and isinstance(cn, SList):
        return z3.And(co.n == cn.n, A.forall_idx(
            co.n, lambda i: co.at(i) == cn.at(i)))
    if isinstance(co, ObjRec) and isinstance(cn, ObjRec):
        fs = []
        if set(co.fields) != set(cn.fields):
            return z3.BoolVal(False)
        for f in co.fields:
            e = values_equal(ex, so, co.fields[f], sn, cn.fields[f])
            if e is not None:
                fs.append(e)
        return z3.And(*fs) if fs else None
    if isinstance(co, FlatList) and isinstance(cn, FlatList):
        return z3.And(co.cnt == cn.cnt, A.arr_eq(co.flat, cn.flat))
    if isinstance(co, PyList) and isinstance(cn, PyList):
        if len(co.items) != len(cn.items):
            return z3.BoolVal(False)
        fs = [values_equal(ex, so, a, sn, b) for a, b in zip(co.items, cn.items)]
        fs = [f for f in fs if f is not None]
        return z3.And(*fs) if fs else None
    return z3.BoolVal(False)


class Unit:
    """Result of verifying one function."""

    def __init__(self, qualname):
        self.qualname = qualname
        self.paths = 0
        self.exits = []
        self.error = None


def verify_function(ex, qualname, contract, make_env, frame_obj='self',
                    check_frame=True, extra_exit=None, ghost_frame=(), tag=''):
    """Run the body of `qualname` under `contract`.

    make_env(ex, st) -> dict of initial environment (self + parameters); it
    may add assumptions (type invariants of inputs) to st.
    """
    cx = ex.cx
    fs = ex.fe.get(qualname)
    unit = Unit(qualname)
    cx.prefix = short(qualname) + tag + '/'
    st = State()
    n_before = len(cx.obligations)
    try:
        st.env = make_env(ex, st)
        for (nm, f) in _spec(contract.pre, View(ex, st)):
            st.assume(f)
        cx.line = fs.node.lineno
        cx.cover(st, 'pre_satisfiable')
        old = st.copy()
        old.env = dict(st.env)
        contract.entry_state = old
        outs = ex.run_function(fs, st, contract.loops)
        unit.paths = len(outs)
        for o in outs:
            cx.line = fs.node.end_lineno
            if o.status == 'return':
                unit.exits.append('return')
                cx.cover(o, 'exit_reachable/' + '.'.join(o.trace[-6:]))
                for (nm, f) in _spec(contract.post, View(ex, old), View(ex, o),
                                             o.retval):
                    cx.oblige(o, 'post/' + nm, f, kind='post')
                if check_frame and frame_obj in old.env and isinstance(
                        old.env[frame_obj], Ref):
                    ro = old.cell(old.env[frame_obj])
                    rn = o.cell(old.env[frame_obj])
                    from .npmodel import MaybeNone
                    arg_refs = set()
                    for a in contract.mod_args:
                        v = old.env.get(a)
                        if isinstance(v, MaybeNone):
                            v = v.val
                        if isinstance(v, Ref):
                            arg_refs.add(v.oid)
                    for fld in sorted(set(ro.fields) | set(rn.fields)):
                        if fld in contract.mod_fields:
                            continue
                        fv = ro.fields.get(fld)
                        if isinstance(fv, MaybeNone):
                            fv = fv.val
                        if isinstance(fv, Ref) and fv.oid in arg_refs:
                            continue    # modified through the declared alias
                        if fld not in ro.fields or fld not in rn.fields:
                            cx.oblige(o, 'frame/' + fld, z3.BoolVal(False),
                                      kind='frame')
                            continue
                        e = values_equal(ex, old, ro.fields[fld], o,
                                         rn.fields[fld])
                        if e is not None:
                            cx.oblige(o, 'frame/' + fld, e, kind='frame')
                    n_frame = len([1 for ob in cx.obligations[n_before:]
                                   if ob.meta.get('kind') == 'frame'])
                    for g in ghost_frame:
                        if g in contract.mod_ghost:
                            continue
                        go, gn = old.ghost.get(g), o.ghost.get(g)
                        if go is gn:
                            continue
                        if z3.is_expr(go) and z3.is_expr(gn):
                            cx.oblige(o, 'frame/$' + g, go == gn, kind='frame')
                            continue
                        e = values_equal(ex, old, go, o, gn)
                        if e is not None:
                            cx.oblige(o, 'frame/$' + g, e, kind='frame')
                    if not contract.mod_fields and not contract.mod_ghost:
                        # read-only function: record the frame result even
                        # when every location is identical by construction
                        cx.oblige(o, 'frame/nothing_modified',
                                  z3.BoolVal(True), kind='frame')
                if extra_exit is not None:
                    extra_exit(ex, old, o)
            elif o.status == 'raise':
                unit.exits.append('raise ' + str(o.exc))
                if contract.raises is not None:
                    for (nm, f) in _spec(contract.raises, View(ex, old), View(ex, o),
                                                   o.exc):
                        cx.oblige(o, 'raises/' + nm, f, kind='raises',
                                  exc=o.exc)
                else:
                    cx.oblige(o, 'no_raise/{}'.format(o.exc), z3.BoolVal(False),
                              kind='no_raise', exc=o.exc)
    except OutsideSubset as e:
        # fail closed: the function left the supported subset
        del cx.obligations[n_before:]
        line = getattr(e.node, 'lineno', cx.line)
        unit.error = 'OutsideSubset: {} (line {})'.format(e, line)
        cx.oblige(State(), 'in_subset', z3.BoolVal(False), kind='in_subset',
                  reason=unit.error)
    except Raised as e:
        unit.error = 'raised during setup: {}'.format(e)
        cx.oblige(State(), 'in_subset', z3.BoolVal(False), kind='in_subset',
                  reason=unit.error)
    cx.prefix = ''
    return unit


def verify_block(ex, qualname, select, make_env, post, tag='', raises=None,
                 loops=None):
    """Verify a contiguous block of statements of a function: `select(fnode)`
    returns the statement list (mechanically taken from the real AST on every
    run); make_env builds the symbolic locals at block entry (the block's
    precondition); post(old_state, exit_state) -> [(name, formula)].
    What this drops: the statements of the function outside the block; the
    link between them and the block's precondition is an assumption that must
    be discharged by another unit or listed."""
    import ast as _ast
    cx = ex.cx
    fs = ex.fe.get(qualname)
    cx.prefix = short(qualname) + tag + '/'
    st = State()
    n_before = len(cx.obligations)
    unit = Unit(qualname)
    try:
        st.env = make_env(ex, st)
        stmts = select(fs.node)
        if not stmts:
            raise OutsideSubset('block not found in ' + qualname)
        cx.line = stmts[0].lineno
        cx.cover(st, 'pre_satisfiable')
        old = st.copy()
        old.env = dict(st.env)
        saved = (ex.cur_fn, ex.loop_specs, ex.loop_ord)
        ex.cur_fn = fs
        ex.alias = ex.fe.local_aliases(fs.qualname)
        for cur, ref in ex.alias.items():
            # inputs of the block named by the contract under the old name
            if ref in st.env and cur not in st.env:
                st.env[cur] = st.env[ref]
        ex.loop_specs = loops or {}
        from .frontend import loops_of
        ex.loop_ord = {id(n): k for k, n in enumerate(loops_of(fs.node))}
        for n in stmts:
            for sub in _ast.walk(n):
                if isinstance(sub, _ast.If):
                    key = _ast.unparse(sub.test)[:80]
                    ex.branch_all.add((fs.qualname, key, True))
                    ex.branch_all.add((fs.qualname, key, False))
        try:
            outs = ex.exec_block(stmts, [st])
        finally:
            ex.cur_fn, ex.loop_specs, ex.loop_ord = saved
        unit.paths = len(outs)
        for o in outs:
            cx.line = stmts[-1].end_lineno
            if o.status in ('return', 'normal'):
                cx.cover(o, 'exit_reachable/' + '.'.join(o.trace[-6:]))
                for (nm, f) in post(old, o):
                    cx.oblige(o, 'post/' + nm, f, kind='post')
            elif o.status == 'raise':
                if raises is not None:
                    for (nm, f) in raises(old, o, o.exc):
                        cx.oblige(o, 'raises/' + nm, f, kind='raises')
                else:
                    cx.oblige(o, 'no_raise/{}'.format(o.exc), z3.BoolVal(False),
                              kind='no_raise', exc=o.exc)
    except OutsideSubset as e:
        del cx.obligations[n_before:]
        line = getattr(e.node, 'lineno', cx.line)
        unit.error = 'OutsideSubset: {} (line {})'.format(e, line)
        cx.oblige(State(), 'in_subset', z3.BoolVal(False), kind='in_subset',
                  reason=unit.error)
    cx.prefix = ''
    return unit
