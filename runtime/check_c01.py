"""Concrete check of C01 on the real code: at every bound insertion and batch
boundary every stored sample is in the cube, in its own bound and in no later
bound; transfer candidates are consistent. Prints JSON list of violations;
exit 1 if any.  usage: check_c01.py <repo> [max_scenarios] [n_eff]"""
import json
import sys
sys.path.insert(0, __import__('os').path.dirname(__file__))
import scenarios as SCN  # noqa: E402
repo = SCN.setup_repo()
import numpy as np  # noqa: E402

nmax = int(sys.argv[2]) if len(sys.argv) > 2 else 4
n_eff = float(sys.argv[3]) if len(sys.argv) > 3 else 300
bad = []
checked = [0]


def check(s, where):
    checked[0] += 1
    nb = len(s.bounds)
    if not (len(s.points) == len(s.log_l) == nb == len(s.shell_n)):
        bad.append(dict(where=where, what='lists not aligned'))
        return
    for i, p in enumerate(s.points):
        if len(p) == 0:
            continue
        if not np.all((p >= 0) & (p < 1)):
            bad.append(dict(where=where, shell=i, what='outside unit cube'))
        if not np.all(s.bounds[i].contains(p)):
            bad.append(dict(where=where, shell=i, what='not in own bound',
                            n=int(np.sum(~s.bounds[i].contains(p)))))
        for k in range(i + 1, nb):
            m = s.bounds[k].contains(p)
            if np.any(m):
                bad.append(dict(where=where, shell=i, later=k,
                                what='in a later bound', n=int(np.sum(m)),
                                point=[repr(float(x)) for x in p[m][0]]))
    if not s.explored and nb > 1 and len(s.points_t) > 0:
        pt, sh = s.points_t, s.shell_t
        if len(pt) != len(sh):
            bad.append(dict(where=where, what='transfer arrays misaligned'))
        elif not np.all(s.bounds[-1].contains(pt)):
            bad.append(dict(where=where, what='transfer candidate outside '
                            'newest bound'))


for sc in SCN.SCENARIOS[:nmax]:
    for seed in (0, 1):
        s = SCN.make_sampler(sc, seed=seed)
        SCN.run_with_hooks(s, lambda smp, w, sc=sc, seed=seed: check(
            smp, '{}/seed{}/{}'.format(sc['name'], seed, w)),
            n_eff=n_eff, n_shell=int(1.6 * sc['n_live']), verbose=False)
        check(s, '{}/seed{}/end'.format(sc['name'], seed))
        if len(bad) > 5:
            break
# noisy, not perfectly nested bounds (small live set, frequent updates) and
# batches of one or two points: a batch often has no point in the next bound
for (nb_, seed) in ((1, 0), (2, 1), (2, 2)):
    if len(bad) > 5:
        break
    sc = dict(name='noisy_bounds', like='gauss', n_live=50, n_batch=nb_,
              n_networks=0)
    s = SCN.make_sampler(sc, seed=seed, n_update=10)

    class Stop(Exception):
        pass

    def cb(smp, w, nb_=nb_, seed=seed):
        check(smp, 'noisy_bounds/n_batch={}/seed{}/{}'.format(nb_, seed, w))
        if bad:
            raise Stop()
    try:
        SCN.run_with_hooks(s, cb, n_eff=0, n_shell=40, n_like_max=4000,
                           verbose=False)
    except Stop:
        pass
print(json.dumps(dict(checked=checked[0], violations=bad[:10])))
sys.exit(1 if bad else 0)
