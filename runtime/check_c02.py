"""Concrete check of C02 on the real code: at every batch boundary the
per-shell statistics, log_z, n_eff and posterior weights are the estimators of
the stored samples. usage: check_c02.py <repo> [nscen]"""
import json
import sys
sys.path.insert(0, __import__('os').path.dirname(__file__))
import scenarios as SCN  # noqa: E402
repo = SCN.setup_repo()
import numpy as np  # noqa: E402
from scipy.special import logsumexp  # noqa: E402

nmax = int(sys.argv[2]) if len(sys.argv) > 2 else 3
bad = []


def close(a, b):
    a, b = np.asarray(a, float), np.asarray(b, float)
    return np.array_equal(np.isnan(a), np.isnan(b)) and np.allclose(
        np.nan_to_num(a, neginf=-1e300), np.nan_to_num(b, neginf=-1e300),
        rtol=1e-9, atol=1e-9)


def check(s, where):
    nb = len(s.bounds)
    disc = bool(s._discard_exploration and s.explored)
    for i in range(nb):
        start = s.shell_end_exp[i] if disc else 0
        ns = s.shell_n_sample[i] - (s.shell_n_sample_exp[i] if disc else 0)
        ll = s.log_l[i][start:]
        n = len(ll)
        if s.shell_n[i] != n:
            bad.append(dict(where=where, shell=i, what='shell_n'))
            return
        if n > ns:
            bad.append(dict(where=where, shell=i,
                            what='more samples than proposals'))
        if n == 0:
            continue
        lv = s.bounds[i].log_v + np.log(n / ns)
        if not close(s.shell_log_v[i], lv):
            bad.append(dict(where=where, shell=i, what='shell_log_v stale',
                            stored=float(s.shell_log_v[i]), expect=float(lv)))
            return
        if not close(s.shell_log_l[i], logsumexp(ll) - np.log(n)):
            bad.append(dict(where=where, shell=i, what='shell_log_l stale'))
            return
        ne = n if np.all(ll == -np.inf) else np.exp(
            2 * logsumexp(ll) - logsumexp(2 * ll))
        if not close(s.shell_n_eff[i], ne):
            bad.append(dict(where=where, shell=i, what='shell_n_eff stale'))
            return
    if np.sum(s.shell_n) > 0:
        pts, lw, ll = s.posterior()
        # weights = per-sample volume x likelihood, normalised
        terms = []
        for i in range(nb):
            start = s.shell_end_exp[i] if disc else 0
            l_ = s.log_l[i][start:]
            if len(l_):
                terms.append(s.shell_log_v[i] - np.log(len(l_)) + l_)
        t = np.concatenate(terms)
        if not close(lw, t - logsumexp(t)):
            bad.append(dict(where=where, what='posterior weights'))
        if not close(s.log_z, logsumexp(t)):
            bad.append(dict(where=where, what='log_z'))
        w = np.exp(t - np.amax(t))
        if np.sum(w**2) > 0 and not np.isclose(
                s.n_eff, np.sum(w)**2 / np.sum(w**2), rtol=1e-6):
            bad.append(dict(where=where, what='n_eff is not the Kish size',
                            got=float(s.n_eff)))


cfgs = [(sc, {}) for sc in SCN.SCENARIOS[:nmax]]
cfgs.append((dict(name='tiny_live', like='gauss', n_live=10, n_batch=1,
                  n_networks=0), dict(n_update=1)))
import signal  # noqa: E402


class Budget(Exception):
    pass


class Stop(Exception):
    pass


def _alarm(signum, frame):
    raise Budget()


signal.signal(signal.SIGALRM, _alarm)
undecided = []
for sc, over in cfgs:
    for disc in (False, True):
        s = SCN.make_sampler(sc, seed=1, **over)
        tag = '{}/discard={}'.format(sc['name'], disc)

        def cb(smp, w, tag=tag):
            if w == 'add_samples':
                check(smp, tag + '/' + w)
                if bad:
                    raise Stop()      # first inconsistent batch boundary
        try:
            signal.alarm(400)
            SCN.run_with_hooks(s, cb, n_eff=300, discard_exploration=disc,
                               verbose=False)
            signal.alarm(0)
        except Stop:
            signal.alarm(0)
            break
        except Budget:
            undecided.append(tag)
            continue
        check(s, tag + '/end')
        s.discard_exploration = not disc
        check(s, tag + '/toggled')
        if len(bad) > 5:
            break
    if len(bad) > 5:
        break
print(json.dumps(dict(violations=bad[:8], undecided=undecided)))
sys.exit(1 if bad else 0)
