"""Concrete check of C03 on the real code: every posterior row is the
(point, log_l, blob) triple the likelihood returned, once each, in every
evaluation mode and batch size. usage: check_c03.py <repo> [quick|full]"""
import json
import sys
import warnings
sys.path.insert(0, sys.argv[1])
warnings.filterwarnings('ignore')
import numpy as np  # noqa: E402
from nautilus import Sampler, Prior  # noqa: E402

mode = sys.argv[2] if len(sys.argv) > 2 else 'quick'
bad = []


def ll_of(x):
    return -0.5 * np.sum(((x - 5.0) / 1.0)**2, axis=-1)


def make(kind, vectorized, inplace):
    """prior maps the unit cube to [0, 10]^2; blob = f(point)"""
    def prior(u):
        if inplace:
            u *= 10
            return u
        return u * 10

    def like(x):
        l_ = ll_of(x)
        if kind == 'none':
            return l_
        if kind == 'scalar':
            return l_, (x[..., 0] * 3 + x[..., 1])
        if kind == 'vector':
            if vectorized:
                return l_, np.stack([x[..., 0], x[..., 1], x[..., 0] + 1], -1)
            return l_, np.array([x[0], x[1], x[0] + 1])
        if kind == 'multi':
            if vectorized:
                return l_, x[..., 0] * 2, (x[..., 1] * 7).astype(int)
            return l_, float(x[0] * 2), int(x[1] * 7)
    return prior, like


def expected_blob(kind, x):
    if kind == 'scalar':
        return x[0] * 3 + x[1]
    if kind == 'vector':
        return np.array([x[0], x[1], x[0] + 1])
    if kind == 'multi':
        return (x[0] * 2, int(x[1] * 7))


def check(tag, kind, s):
    if kind == 'none':
        pts, lw, ll = s.posterior()
        bl = None
    else:
        pts, lw, ll, bl = s.posterior(return_blobs=True)
        if len(bl) != len(pts):
            bad.append(dict(where=tag, what='blobs misaligned', n_points=len(
                pts), n_blobs=len(bl)))
            return
    if len(np.unique(pts, axis=0)) != len(pts):
        bad.append(dict(where=tag, what='duplicate rows'))
    if not np.allclose(ll, ll_of(pts), rtol=0, atol=1e-12):
        bad.append(dict(where=tag, what='log_l is not the likelihood of its '
                        'point'))
    if bl is not None:
        for i in range(0, len(pts), max(1, len(pts) // 50)):
            e = expected_blob(kind, pts[i])
            got = bl[i]
            if kind == 'multi':
                got = tuple(got)
                ok = abs(got[0] - e[0]) < 1e-12 and int(got[1]) == e[1]
            else:
                ok = np.allclose(got, e)
            if not ok:
                bad.append(dict(where=tag, what='blob of another point',
                                row=i))
                break


import signal  # noqa: E402


class Budget(Exception):
    pass


def _alarm(signum, frame):
    raise Budget()


signal.signal(signal.SIGALRM, _alarm)
undecided = []
configs = []
for kind in ('scalar', 'vector', 'multi', 'none'):
    for vectorized in (False, True):
        for n_batch in ((1, 2, 50) if mode == 'quick' else (1, 2, 7, 50)):
            configs.append((kind, vectorized, n_batch, True))
if mode != 'quick':
    configs += [(k, v, 50, False) for k in ('scalar', 'none')
                for v in (False, True)]
for (kind, vectorized, n_batch, inplace) in configs:
    tag = 'blob={}/vectorized={}/n_batch={}/inplace={}'.format(
        kind, vectorized, n_batch, inplace)
    prior, like = make(kind, vectorized, inplace)
    try:
        # first a single batch (a mismatch shows at once), then the full run
        # under a time budget (a broken tree may never converge)
        s0 = Sampler(prior, like, n_dim=2, n_live=60, n_batch=n_batch,
                     n_networks=0, vectorized=vectorized, seed=4)
        s0.run(n_like_max=n_batch, verbose=False)
        n0 = len(bad)
        check(tag + '/first batch', kind, s0)
        if len(bad) > n0:
            break
        signal.alarm(200)
        s = Sampler(prior, like, n_dim=2, n_live=60, n_batch=n_batch,
                    n_networks=0, vectorized=vectorized, seed=4)
        s.run(n_eff=150 if n_batch > 1 else 0, n_like_max=400 if n_batch == 1
              else np.inf, verbose=False)
        signal.alarm(0)
    except Budget:
        undecided.append(tag)
        continue
    except Exception as e:
        signal.alarm(0)
        bad.append(dict(where=tag, what='raised ' + type(e).__name__ + ': ' +
                        str(e)[:90]))
        continue
    check(tag, kind, s)
    if len(bad) > 6:
        break
for kind in ('scalar', 'vector'):
    for seed in (0, 1, 2):
        tag = 'blob={}/tiny live set/seed={}'.format(kind, seed)
        prior, like = make(kind, False, False)
        try:
            signal.alarm(300)
            s = Sampler(prior, like, n_dim=2, n_live=10, n_batch=2,
                        n_update=1, n_networks=0, seed=seed)
            s.run(f_live=1e-3, n_eff=0, verbose=False)
            n_shells = len(s.bounds)
            check(tag + '/end of exploration', kind, s)
            if not bad:
                s.run(f_live=1e-3, n_shell=6, n_eff=40, verbose=False)
                check(tag + '/after sampling', kind, s)
            signal.alarm(0)
        except Budget:
            undecided.append(tag)
        except Exception as e:
            signal.alarm(0)
            bad.append(dict(where=tag, what='raised ' + type(e).__name__ +
                            ': ' + str(e)[:90]))
        if bad:
            break
    if bad:
        break
print(json.dumps(dict(configs=len(configs), violations=bad[:8],
                      undecided=undecided)))
sys.exit(1 if bad else 0)
