"""Concrete check of C05 on the real code: stop + resume from the checkpoint at
batch boundaries gives bit-identical results; a discard_exploration toggle
between two run() calls survives a resume. usage: check_c05.py <repo> [nstops]"""
import json
import os
import sys
import tempfile
import warnings
sys.path.insert(0, __import__('os').path.dirname(__file__))
import scenarios as SCN  # noqa: E402
repo = SCN.setup_repo()
warnings.filterwarnings('ignore')
import numpy as np  # noqa: E402

nstops = int(sys.argv[2]) if len(sys.argv) > 2 else 6
bad = []


def result(s):
    p, w, l_ = s.posterior()
    return dict(n_like=int(s.n_like), log_z=float(s.log_z),
                n_eff=float(s.n_eff), p=p, w=w, l=l_)


def same(a, b):
    return a['n_like'] == b['n_like'] and a['log_z'] == b['log_z'] and \
        a['n_eff'] == b['n_eff'] and all(
            a[k].shape == b[k].shape and np.array_equal(a[k], b[k])
            for k in 'pwl')


RUN = dict(n_eff=500, n_shell=150, verbose=False)
for sc in (SCN.SCENARIOS[1], SCN.SCENARIOS[5]):
    for disc in (False, True):
        ref_s = SCN.make_sampler(sc, seed=5)
        ref_s.run(discard_exploration=disc, **RUN)
        ref = result(ref_s)
        nb = ref['n_like'] // sc['n_batch']
        stops = sorted(set(np.linspace(1, nb - 1, nstops).astype(int)))
        with tempfile.TemporaryDirectory() as d:
            for k in stops:
                path = os.path.join(d, 'c{}.h5'.format(k))
                s1 = SCN.make_sampler(sc, seed=5, filepath=path)
                s1.run(discard_exploration=disc,
                       n_like_max=k * sc['n_batch'], **RUN)
                del s1
                s2 = SCN.make_sampler(sc, seed=12345, filepath=path,
                                      resume=True)
                try:
                    s2.run(discard_exploration=disc, **RUN)
                    ok = same(ref, result(s2))
                except Exception as e:
                    ok = False
                    bad.append(dict(scenario=sc['name'], discard=disc, stop=k,
                                    what='raised ' + type(e).__name__))
                if not ok:
                    bad.append(dict(scenario=sc['name'], discard=disc,
                                    stop_after_batches=int(k),
                                    what='resumed run differs from the '
                                    'uninterrupted run'))
                    break
    # history: run(); toggle discard; run(more); resume
    with tempfile.TemporaryDirectory() as d:
        path = os.path.join(d, 't.h5')
        s = SCN.make_sampler(sc, seed=6, filepath=path)
        s.run(n_eff=300, verbose=False)
        s.discard_exploration = True
        s.run(n_eff=200, verbose=False)
        a = result(s)
        try:
            s2 = SCN.make_sampler(sc, seed=1, filepath=path, resume=True)
            b = result(s2)
            if not same(a, b):
                bad.append(dict(scenario=sc['name'],
                                what='state after run; toggle; run differs '
                                'after resume'))
        except Exception as e:
            bad.append(dict(scenario=sc['name'], history='run(); '
                            'discard_exploration=True; run(); resume; '
                            'posterior()', what='raised {}: {}'.format(
                                type(e).__name__, str(e)[:90])))
# first shell removed at the end of exploration: the resumed bounds must be the
# stored ones
from nautilus import Sampler  # noqa: E402
import shutil  # noqa: E402


def _gauss(x):
    return -0.5 * np.sum(((x - 0.5) / 0.1)**2)


# kill during the likelihood evaluation of batch k+1: the checkpoint on disk is
# the one written after k batches (possibly followed by a bound insertion);
# resuming from it must reproduce the uninterrupted run. The bound-insertion
# criterion is driven by n_like_new_bound here (the tests only exercise
# n_update).
for (nlive, nlnb, disc) in ((100, 100, False), (120, 300, False),
                            (120, 1200, True)):
    kw = dict(n_dim=2, n_live=nlive, n_like_new_bound=nlnb, n_networks=0,
              seed=5)
    RUNKW = dict(n_eff=400, verbose=False, discard_exploration=disc)
    ref_s = Sampler(SCN.prior, _gauss, **kw)
    ref_s.run(**RUNKW)
    ref = result(ref_s)
    with tempfile.TemporaryDirectory() as d:
        path = os.path.join(d, 'k.h5')
        s1 = Sampler(SCN.prior, _gauss, filepath=path, **kw)
        snaps = []
        phase = []
        orig = s1.evaluate_likelihood

        def spy(points, orig=orig, snaps=snaps, path=path, d=d, s1=s1,
                phase=phase):
            if os.path.exists(path):
                c = os.path.join(d, 'snap{}.h5'.format(len(snaps)))
                shutil.copyfile(path, c)
                snaps.append(c)
                phase.append(bool(s1.explored))
            return orig(points)
        s1.evaluate_likelihood = spy
        s1.run(**RUNKW)
        if not same(ref, result(s1)):
            bad.append(dict(scenario='kill-in-batch', what='checkpointed run '
                            'differs from the run without a file'))
        # ... and the same configuration stopped through n_like_max
        nb = ref['n_like'] // 100
        for k in sorted(set(list(range(1, min(nb, 7))) + list(np.linspace(
                1, nb - 1, nstops).astype(int)))):
            sp = os.path.join(d, 's{}.h5'.format(k))
            a = Sampler(SCN.prior, _gauss, filepath=sp, **kw)
            a.run(n_like_max=k * 100, **RUNKW)
            del a
            b = Sampler(SCN.prior, _gauss, filepath=sp, resume=True,
                        **dict(kw, seed=4))
            b.run(**RUNKW)
            if not same(ref, result(b)):
                bad.append(dict(scenario='stop after {} batches, n_live={} '
                                'n_like_new_bound={}'.format(k, nlive, nlnb),
                                what='resumed run differs from the '
                                'uninterrupted run'))
                break
        pick = set(np.linspace(0, len(snaps) - 1, 2 * nstops).astype(int)) \
            if snaps else set()
        if True in phase:
            # the batches around the end of the exploration phase
            k0 = phase.index(True)
            pick |= {k for k in (k0 - 1, k0, k0 + 1) if 0 <= k < len(snaps)}
        pick = sorted(pick)
        for k in pick:
            rp = os.path.join(d, 'r.h5')
            shutil.copyfile(snaps[k], rp)
            try:
                s2 = Sampler(SCN.prior, _gauss, filepath=rp, resume=True,
                             **dict(kw, seed=999))
                s2.run(**RUNKW)
                ok = same(ref, result(s2))
                what = 'run resumed from the checkpoint on disk during ' \
                    'batch {} differs from the uninterrupted run'.format(k + 2)
            except Exception as e:
                ok, what = False, 'resume raised ' + type(e).__name__
            if not ok:
                bad.append(dict(scenario='kill-in-batch n_live={} '
                                'n_like_new_bound={} discard={}'.format(nlive, nlnb, disc),
                                what=what))
                break


def _like(x):
    return -np.linalg.norm(x - 0.5) * 0.001


for seed in (0, 10):
    with tempfile.TemporaryDirectory() as d:
        path = os.path.join(d, 'e.h5')
        kw = dict(n_dim=2, n_live=10, n_batch=1, n_update=1, n_networks=0,
                  seed=seed, filepath=path)
        s = Sampler(SCN.prior, _like, **kw)
        s.run(n_eff=0, verbose=False)
        s2 = Sampler(SCN.prior, _like, resume=True, **kw)
        probe = np.random.default_rng(0).random((500, 2))
        for i, (b1, b2) in enumerate(zip(s.bounds, s2.bounds)):
            if type(b1) is not type(b2) or not np.array_equal(
                    b1.contains(probe), b2.contains(probe)):
                bad.append(dict(scenario='empty first shell, seed {}'.format(
                    seed), what='bound {} differs after resume: {} vs {}'
                    .format(i, type(b1).__name__, type(b2).__name__)))
                break
print(json.dumps(dict(violations=bad[:8]), default=str))
sys.exit(1 if bad else 0)
