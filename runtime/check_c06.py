"""Concrete crash test of C06 on the real code: a child process runs a
checkpointed sampler and is killed (os._exit) when a chosen line of
Sampler.write / Sampler.write_shell_update is about to execute (after at least
one complete checkpoint exists); afterwards the checkpoint must exist, load,
and continue. usage: check_c06.py <repo> [stride]"""
import inspect
import json
import os
import subprocess
import sys
import tempfile
import warnings
repo = sys.argv[1]
stride = int(sys.argv[2]) if len(sys.argv) > 2 else 3
sys.path.insert(0, repo)
warnings.filterwarnings('ignore')
import numpy as np  # noqa: E402
import h5py  # noqa: E402
from nautilus import Sampler  # noqa: E402

CHILD = r'''
import sys, os, warnings
sys.path.insert(0, {repo!r})
warnings.filterwarnings('ignore')
import numpy as np
from nautilus import Sampler
count = dict(n=0)
def tracer(frame, event, arg):
    if frame.f_code.co_name != {func!r} or not \
            frame.f_code.co_filename.endswith('sampler.py'):
        return None
    if event == 'call':
        count['n'] += 1
        return tracer
    if event == 'line' and frame.f_lineno == {line} and count['n'] >= {nth}:
        os._exit(17)
    return tracer
def like(x):
    return -0.5 * np.sum(((x - 0.5) / 0.1)**2)
s = Sampler(lambda u: u, like, n_dim=2, n_live=100, n_batch=25, n_networks=0,
            seed=3, filepath={path!r})
sys.settrace(tracer)
s.run(n_eff=200, n_shell=110, verbose=False)
sys.settrace(None)
os._exit(0)
'''

bad = []
points = []
for func, nth in (('write', 2), ('write_shell_update', 3)):
    src, first = inspect.getsourcelines(getattr(Sampler, func))
    body = [first + i for i, l in enumerate(src) if l.strip() and not
            l.strip().startswith(('"""', '#', 'def '))]
    # skip the docstring
    doc_end = 0
    for i, l in enumerate(src):
        if i > 0 and l.strip().endswith('"""'):
            doc_end = i
            break
    body = [ln for ln in body if ln > first + doc_end]
    points += [(func, ln, nth) for ln in body[::stride]]

n_killed = 0
with tempfile.TemporaryDirectory() as d:
    for (func, line, nth) in points:
        path = os.path.join(d, '{}_{}.h5'.format(func, line))
        code = CHILD.format(repo=repo, func=func, line=line, nth=nth,
                            path=path)
        p = subprocess.run([sys.executable, '-c', code], capture_output=True,
                           text=True, timeout=300)
        if p.returncode != 17:
            continue          # line not reached that often
        n_killed += 1
        where = '{}:L{} (call #{})'.format(func, line, nth)
        if not os.path.exists(path):
            bad.append(dict(crash=where, what='checkpoint missing although '
                            'one had been written'))
            continue
        try:
            def like(x):
                return -0.5 * np.sum(((x - 0.5) / 0.1)**2)
            s = Sampler(lambda u: u, like, n_dim=2, n_live=100, n_batch=25,
                        n_networks=0, seed=9, filepath=path, resume=True)
            with h5py.File(path, 'r') as f:
                g = f['sampler']
                n_like = int(g.attrs['n_like'])
                stored = sum(len(g['points_{}'.format(i)])
                             for i in range(len(g.attrs['shell_n'])))
                n_t = int(np.sum(np.array(g['shell_t']) >= 0)) if \
                    'shell_t' in g else 0
            if stored + n_t > n_like or np.sum(s.shell_n) != sum(
                    len(p_) for p_ in s.points):
                bad.append(dict(crash=where, what='mixture of two states',
                                n_like=n_like, stored=int(stored)))
                continue
            s.run(n_eff=200, n_shell=110, n_like_max=n_like + 100,
                  verbose=False)
        except Exception as e:
            bad.append(dict(crash=where, what='checkpoint unusable: {}: {}'
                            .format(type(e).__name__, str(e)[:80])))
        if len(bad) > 6:
            break
print(json.dumps(dict(crash_points=len(points), killed=n_killed,
                      violations=bad[:8])))
sys.exit(1 if bad else 0)
