"""Concrete check of C07 on the real code. usage: check_c07.py <repo> [quick|full]"""
import json
import sys
import warnings
sys.path.insert(0, sys.argv[1])
warnings.filterwarnings('ignore')
import numpy as np  # noqa: E402
from nautilus.bounds import (UnitCube, Ellipsoid, UnitCubeEllipsoidMixture,  # noqa
                             Union, NeuralBound, NautilusBound)
from nautilus.pool import NautilusPool  # noqa: E402

mode = sys.argv[2] if len(sys.argv) > 2 else 'quick'
bad = []
rg = np.random.default_rng(5)


def clouds(nd):
    yield 'blob', rg.normal(size=(300, nd)) * 0.05 + 0.5
    yield 'corner', np.abs(rg.normal(size=(300, nd))) * 0.03
    e = rg.normal(size=(300, nd)) * 0.02
    e[:, 0] *= 15
    yield 'elongated', np.clip(e + 0.5, 0.001, 0.999)
    two = np.vstack([rg.normal(size=(150, nd)) * 0.02 + 0.3,
                     rg.normal(size=(150, nd)) * 0.02 + 0.7])
    yield 'two', two


def check_sample(tag, b, n, unit, **kw):
    p = b.sample(n, **kw)
    if len(p) != n:
        bad.append(dict(case=tag, what='sample returned {} rows'.format(
            len(p))))
    c = b.contains(p)
    if not np.all(c):
        bad.append(dict(case=tag, what='{} of {} samples not contained'
                        .format(int(np.sum(~c)), n)))
    if unit and not np.all((p >= 0) & (p < 1)):
        bad.append(dict(case=tag, what='sample outside the unit cube'))


for nd in ((2, 5) if mode == 'quick' else (2, 3, 5, 8)):
    for name, pts in clouds(nd):
        for enl in (1.01, 1.1, 2.0):
            tag = '{}d/{}/enlarge={}'.format(nd, name, enl)
            r = lambda: np.random.default_rng(1)  # noqa: E731
            for cls in (Ellipsoid, UnitCubeEllipsoidMixture):
                b = cls.compute(pts, enlarge_per_dim=enl, rng=r())
                if not np.all(b.contains(pts)):
                    bad.append(dict(case=tag, cls=cls.__name__,
                                    what='construction point not enclosed'))
                check_sample(tag + '/' + cls.__name__, b, 500, False)
            for cls in (Ellipsoid, UnitCubeEllipsoidMixture):
                u = Union.compute(pts, enlarge_per_dim=enl, n_points_min=40,
                                  bound_class=cls, rng=r())
                for step in range(3):
                    inside = np.all((pts >= 0) & (pts < 1), axis=1)
                    if not np.all(u.contains(pts[inside])):
                        bad.append(dict(case=tag, cls='Union/' + cls.__name__,
                                        what='construction point lost after {}'
                                        ' splits'.format(step)))
                    check_sample(tag + '/Union/' + cls.__name__, u, 300, True)
                    if not u.split():
                        break
        if len(bad) > 6:
            break
# neural / nautilus bounds
pts = np.vstack([rg.normal(size=(250, 3)) * 0.03 + 0.3,
                 rg.normal(size=(250, 3)) * 0.03 + 0.7])
ll = -np.sum((pts - 0.5)**2, axis=1)
probe = rg.random((3000, 3))
for periodic in (None, np.array([0, 2])):
    for nn in (0, 1):
        tag = 'NautilusBound[periodic={},networks={}]'.format(
            periodic is not None, nn)
        b = NautilusBound.compute(pts, ll, np.median(ll), np.log(0.01),
                                  n_networks=nn, periodic=periodic,
                                  rng=np.random.default_rng(2))
        check_sample(tag + '/serial', b, 700, True)
        sp = b.shift.transform(probe) if b.shift is not None else probe
        if np.any(b.contains(probe) & ~b.outer_bound.contains(sp)):
            bad.append(dict(case=tag, what='contains a point outside the '
                            'outer bound'))
        for nbd in b.neural_bounds:
            if np.any(nbd.contains(sp) & ~nbd.outer_bound.contains(sp)):
                bad.append(dict(case=tag, what='neural bound exceeds its '
                                'ellipsoid'))
        pool = NautilusPool(2)
        try:
            b.reset(np.random.default_rng(3))
            check_sample(tag + '/pool', b, 700, True, pool=pool)
        finally:
            pool.pool.terminate()
# proposals cached before a restructuring (split / trim) must not survive it
r0 = np.random.default_rng(0)
far = np.vstack([r0.normal(size=(200, 3)), r0.normal(size=(200, 3)) + 10,
                 r0.normal(size=(30, 3)) + 1e7])
for word in (('split', 'trim'), ('split', 'split', 'trim'), ('trim',),
             ('split',)):
    u = Union.compute(far, enlarge_per_dim=1.1, n_points_min=50,
                      bound_class=Ellipsoid, unit=False,
                      rng=np.random.default_rng(0))
    for op in word:
        u.sample(300)           # leaves ~700 proposals in the cache
        getattr(u, op)()
    check_sample('Union/cache after ' + '.'.join(word), u, 600, False)
# a likelihood that ignores one parameter: the outer bound becomes a cube /
# ellipsoid mixture (a cylinder) while the neural bounds stay ellipsoids
pts = np.hstack([rg.normal(size=(600, 2)) * 0.05 + 0.5, rg.random((600, 1))])
ll = -np.sum((pts[:, :2] - 0.5)**2, axis=1)
for nn in (0, 1):
    tag = 'NautilusBound[flat parameter,networks={}]'.format(nn)
    b = NautilusBound.compute(pts, ll, np.median(ll), np.log(0.01),
                              n_networks=nn, rng=np.random.default_rng(4))
    check_sample(tag + '/serial', b, 700, True)
    if np.any(b.contains(probe) & ~b.outer_bound.contains(probe)):
        bad.append(dict(case=tag, what='contains a point outside the outer '
                        'bound'))
print(json.dumps(dict(violations=bad[:8])))
sys.exit(1 if bad else 0)
