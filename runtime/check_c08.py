"""Statistical (bounded, fixed-seed) check of C08 on the real code.
usage: check_c08.py <repo> [quick|full]

Draws from Ellipsoid / Union / NautilusBound.sample are compared with
brute-force uniform draws filtered through contains(), cell by cell
(two-sample chi-square), and exp(log_v) is compared with a Monte-Carlo
volume. An alarm needs p < 1e-9 (|z| > 6.1), so that no random stream makes
the unchanged algorithm fail; seeds are fixed, the run is deterministic."""
import json
import sys
import warnings
sys.path.insert(0, sys.argv[1])
warnings.filterwarnings('ignore')
import numpy as np  # noqa: E402
from scipy import stats  # noqa: E402
from nautilus.bounds import (Ellipsoid, UnitCubeEllipsoidMixture, Union,  # noqa
                             NautilusBound)

mode = sys.argv[2] if len(sys.argv) > 2 else 'quick'
N = 40000 if mode == 'quick' else 200000
P_ALARM = 1e-9
Z_ALARM = 6.1
bad = []
seen = []
rg = np.random.default_rng(11)


def cells(p, lo, hi, g):
    i = np.clip(((p - lo) / (hi - lo) * g).astype(int), 0, g - 1)
    return np.ravel_multi_index(i.T, (g,) * p.shape[1])


def two_sample(tag, a, b, lo, hi, g):
    """chi-square test that the rows of a and b have the same distribution
    over a g^d grid"""
    ca = np.bincount(cells(a, lo, hi, g), minlength=g**a.shape[1])
    cb = np.bincount(cells(b, lo, hi, g), minlength=g**a.shape[1])
    keep = (ca + cb) >= 40
    if keep.sum() < 2:
        return
    chi2, p, dof, _ = stats.chi2_contingency(np.vstack([ca[keep], cb[keep]]))
    seen.append(dict(case=tag, test='occupancy', p=float(p), cells=int(
        keep.sum())))
    if p < P_ALARM:
        bad.append(dict(case=tag, what='samples are not uniform over the '
                        'bound: occupancy differs from brute force, p={:.2e}'
                        .format(p)))


def brute(contains, lo, hi, n, r):
    out, tried = [], 0
    while sum(len(o) for o in out) < n:
        x = r.random((200000, len(lo))) * (hi - lo) + lo
        tried += len(x)
        out.append(x[contains(x)])
    got = sum(len(o) for o in out)
    return np.vstack(out)[:n], got / tried, tried


def volume(tag, log_v, counters, frac, tried, lo, hi):
    """exp(log_v) against box volume * accepted fraction"""
    v_box = float(np.prod(hi - lo))
    v_mc = v_box * frac
    se_mc = v_box * np.sqrt(frac * (1 - frac) / tried)
    v = float(np.exp(log_v))
    # the bound's own estimate: one binomial acceptance fraction per level
    rel2 = 0.0
    for (ns, nr) in counters:
        f = max(1.0 - nr / ns, 1.0 / ns)
        rel2 += (1 - f) / (f * ns)
    se_own = v * np.sqrt(rel2)
    z = (v - v_mc) / np.sqrt(se_mc**2 + se_own**2 + (1e-12 * v_box)**2)
    seen.append(dict(case=tag, test='volume', v=v, v_mc=v_mc, z=float(z)))
    if abs(z) > Z_ALARM:
        bad.append(dict(case=tag, what='reported volume {:.6g} vs Monte-Carlo '
                        '{:.6g} (z={:.1f})'.format(v, v_mc, z)))


def two_blobs(nd, n=400, sep=0.22, s=0.05):
    a = rg.normal(size=(n, nd)) * s + 0.5 - sep / 2
    b = rg.normal(size=(n, nd)) * s * 0.6 + 0.5 + sep / 2
    return np.clip(np.vstack([a, b]), 0.001, 0.999)


for nd in ((2, 3) if mode == 'quick' else (2, 3, 5)):
    g = {2: 12, 3: 6, 5: 3}[nd]
    # ---- one ellipsoid: radial law and occupancy
    pts = rg.normal(size=(300, nd)) @ np.diag(np.linspace(0.03, 0.12, nd)) \
        + 0.5
    e = Ellipsoid.compute(pts, enlarge_per_dim=1.1,
                          rng=np.random.default_rng(1))
    s = e.sample(N)
    t = e.transform(s)
    r_d = np.sum(t**2, axis=1)**(nd / 2.0)
    p_rad = stats.kstest(r_d, 'uniform').pvalue
    seen.append(dict(case='{}d/Ellipsoid'.format(nd), test='radial',
                     p=float(p_rad)))
    if p_rad < P_ALARM:
        bad.append(dict(case='{}d/Ellipsoid'.format(nd), what='radial law of '
                        'the samples is not r^d ~ U(0,1): p={:.2e}'.format(
                            p_rad)))
    lo, hi = s.min(axis=0) - 1e-9, s.max(axis=0) + 1e-9
    ref, frac, tried = brute(e.contains, lo, hi, N, np.random.default_rng(2))
    # the box is the sample range, not the exact extent: compare inside it
    two_sample('{}d/Ellipsoid'.format(nd), s, ref, lo, hi, g)
    # exact extent of the ellipsoid for the volume check
    ext = np.sqrt(np.sum(e.B**2, axis=1))
    lo, hi = e.c - ext, e.c + ext
    _, frac, tried = brute(e.contains, lo, hi, N, np.random.default_rng(3))
    volume('{}d/Ellipsoid'.format(nd), e.log_v, [], frac, tried, lo, hi)
    # ---- union of overlapping members
    for cls, near_face in ((Ellipsoid, False), (UnitCubeEllipsoidMixture,
                                                False), (Ellipsoid, True)):
        pts = two_blobs(nd)
        if near_face:
            # members cut by the faces of the unit cube
            pts = np.clip(pts - 0.38, 0.0005, 0.9995)
        u = Union.compute(pts, enlarge_per_dim=1.15, n_points_min=60,
                          bound_class=cls, rng=np.random.default_rng(4))
        while u.split():
            pass
        tag = '{}d/Union[{}x{}{}]'.format(nd, len(u.bounds), cls.__name__,
                                         ',cut by the cube' if near_face else '')
        s = u.sample(N)
        lo, hi = np.zeros(nd), np.ones(nd)
        ref, frac, tried = brute(u.contains, lo, hi, N,
                                 np.random.default_rng(5))
        two_sample(tag, s, ref, s.min(axis=0) - 1e-9, s.max(axis=0) + 1e-9, g)
        volume(tag, u.log_v, [(u.n_sample, u.n_reject)], frac, tried, lo, hi)
# ---- a member with a tiny share of the volume must still get its share
for ratio in (0.03, 0.06):
    big = rg.normal(size=(500, 2)) * 0.08 + 0.35
    small = rg.normal(size=(500, 2)) * 0.08 * ratio + 0.85
    u = Union.compute(np.clip(np.vstack([big, small]), 0.001, 0.999),
                      enlarge_per_dim=1.1, n_points_min=100,
                      bound_class=Ellipsoid, rng=np.random.default_rng(8))
    u.split()
    if len(u.bounds) == 2:
        lv = np.array([b.log_v for b in u.bounds])
        k = int(np.argmin(lv))
        probe = u.bounds[k].sample(200)
        if not np.any(u.bounds[1 - k].contains(probe)):     # disjoint members
            s = u.sample(N)
            share = float(np.exp(lv[k] - np.logaddexp(lv[0], lv[1])))
            got = int(np.sum(u.bounds[k].contains(s)))
            pv = stats.binomtest(got, N, share).pvalue
            seen.append(dict(case='small member, share {:.2e}'.format(share),
                             test='share', p=float(pv), got=got,
                             expected=share * N))
            if pv < P_ALARM:
                bad.append(dict(case='Union[2xEllipsoid] with a member '
                                'holding {:.2e} of the volume'.format(share),
                                what='{} of {} samples in the small member, '
                                'expected {:.1f} (p={:.1e})'.format(
                                    got, N, share * N, pv)))
# ---- nautilus bound with a network
nd = 2
pts = rg.random((1200, nd)) * 0.5 + 0.25
ll = -np.sum((pts - 0.5)**2, axis=1) * 40
for periodic in (None, np.array([0])):
    b = NautilusBound.compute(pts, ll, np.quantile(ll, 0.6), np.log(0.02),
                              n_networks=1, periodic=periodic,
                              rng=np.random.default_rng(6))
    tag = 'NautilusBound[periodic={}]'.format(periodic is not None)
    s = b.sample(N)
    # the same bound sampled through a pool: counters of both levels merged
    from nautilus.pool import NautilusPool
    bp = NautilusBound.compute(pts, ll, np.quantile(ll, 0.6), np.log(0.02),
                               n_networks=1, periodic=periodic,
                               rng=np.random.default_rng(6))
    pool = NautilusPool(2)
    try:
        sp = bp.sample(N, pool=pool)
    finally:
        pool.pool.terminate()
    lo, hi = np.zeros(nd), np.ones(nd)
    ref, frac, tried = brute(b.contains, lo, hi, N, np.random.default_rng(7))
    two_sample(tag, s, ref, lo, hi, 12)
    volume(tag, b.log_v, [(b.n_sample, b.n_reject),
                          (b.outer_bound.n_sample, b.outer_bound.n_reject)],
           frac, tried, lo, hi)
    two_sample(tag + '/pool', sp, ref, lo, hi, 12)
    volume(tag + '/pool', bp.log_v, [
        (bp.n_sample, bp.n_reject),
        (bp.outer_bound.n_sample, bp.outer_bound.n_reject)], frac, tried, lo,
        hi)
print(json.dumps(dict(violations=bad[:8], tests=len(seen),
                      weakest=sorted(seen, key=lambda d: d.get(
                          'p', 1.0) if 'p' in d else 2 * stats.norm.sf(abs(
                              d['z'])))[:4])))
sys.exit(1 if bad else 0)
