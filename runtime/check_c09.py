"""Concrete check of C09 on the real code: write/read round trip of every
bound class and state. usage: check_c09.py <repo>"""
import json
import os
import sys
import tempfile
import warnings
sys.path.insert(0, sys.argv[1])
warnings.filterwarnings('ignore')
import h5py  # noqa: E402
import numpy as np  # noqa: E402
from nautilus.bounds import (UnitCube, Ellipsoid, UnitCubeEllipsoidMixture,  # noqa
                             Union, NeuralBound, NautilusBound)
from nautilus.bounds.periodic import PhaseShift  # noqa: E402

bad = []
rngp = np.random.default_rng(7)
pts = rngp.normal(size=(400, 3)) * 0.05 + 0.5
pts2 = np.vstack([rngp.normal(size=(200, 3)) * 0.02 + 0.3,
                  rngp.normal(size=(200, 3)) * 0.02 + 0.7])
log_l = -np.sum((pts2 - 0.5)**2, axis=1)
probe = rngp.random((2000, 3))


def sync(o, gen):
    """give the bound and every bound inside it the generator `gen`"""
    if o is None:
        return
    if hasattr(o, 'rng'):
        o.rng = gen
    for part in ('cube', 'ellipsoid', 'outer_bound'):
        sync(getattr(o, part, None), gen)
    for lst in ('bounds', 'neural_bounds'):
        for m in getattr(o, lst, []):
            sync(m, gen)


def cases():
    r = lambda: np.random.default_rng(3)  # noqa: E731
    yield 'UnitCube', UnitCube, UnitCube.compute(3, rng=r())
    yield 'Ellipsoid', Ellipsoid, Ellipsoid.compute(pts, rng=r())
    yield 'Mixture', UnitCubeEllipsoidMixture, \
        UnitCubeEllipsoidMixture.compute(pts, rng=r())
    for unit in (True, False):
        for cls in (Ellipsoid, UnitCubeEllipsoidMixture):
            u = Union.compute(pts2, n_points_min=20, unit=unit,
                              bound_class=cls, rng=r())
            yield 'Union[unit={},{}]/fresh'.format(unit, cls.__name__), \
                Union, u
            u = Union.compute(pts2, n_points_min=20, unit=unit,
                              bound_class=cls, rng=r())
            u.split()
            u.sample(150)
            yield 'Union[unit={},{}]/split+sampled'.format(
                unit, cls.__name__), Union, u
    # not restricted to the unit cube, members reaching beyond its faces
    edge = np.vstack([rngp.normal(size=(200, 3)) * 0.05 + [0.02, 0.5, 0.97],
                      rngp.normal(size=(200, 3)) * 0.05 + [0.5, 1.0, 0.5]])
    for unit in (True, False):
        u = Union.compute(edge, n_points_min=20, unit=unit, rng=r())
        u.split()
        u.sample(200)
        yield 'Union[unit={}]/members cut by the cube faces'.format(unit), \
            Union, u
    # more than ten members: names bound_10.. sort before bound_2
    many = np.vstack([rngp.normal(size=(60, 2)) * 0.004 + c for c in
                      [(0.1 + 0.2 * (i % 4), 0.15 + 0.22 * (i // 4))
                       for i in range(13)]])
    u = Union.compute(many, n_points_min=25, rng=r())
    while u.split():
        pass
    u.sample(300)
    yield 'Union[{} members]'.format(len(u.bounds)), Union, u
    # non-default network settings and a periodic index set that is not sorted
    pts4 = np.hstack([pts2, rngp.random((len(pts2), 1))])
    b = NautilusBound.compute(
        pts4, log_l, np.median(log_l), np.log(0.01), n_networks=1,
        periodic=np.array([3, 0]),
        neural_network_kwargs=dict(activation='tanh',
                                   hidden_layer_sizes=(20, 10)), rng=r())
    b.sample(120)
    yield 'NautilusBound[periodic=[3,0],tanh network]', NautilusBound, b
    for periodic in (None, np.array([0])):
        for nn in (0, 1):
            b = NautilusBound.compute(
                pts2, log_l, np.median(log_l), np.log(0.01), n_networks=nn,
                periodic=periodic, rng=r())
            b.sample(120)
            yield 'NautilusBound[periodic={},networks={}]'.format(
                periodic is not None, nn), NautilusBound, b


with tempfile.TemporaryDirectory() as d:
    for k, (name, cls, b) in enumerate(cases()):
        path = os.path.join(d, 'b{}.h5'.format(k))
        try:
            with h5py.File(path, 'w') as f:
                b.write(f.create_group('b'))
            g = np.random.default_rng(99)
            with h5py.File(path, 'r') as f:
                b2 = cls.read(f['b'], rng=g)
            nd_ = getattr(b, 'n_dim', 3)
            pr = probe[:, :nd_] if nd_ <= 3 else np.hstack(
                [probe, rngp.random((len(probe), nd_ - 3))])
            # also probe a margin around the unit cube
            pr = np.vstack([pr, pr * 1.4 - 0.2])
            if not np.array_equal(b.contains(pr), b2.contains(pr)):
                bad.append(dict(case=name, what='contains differs'))
            for o in (b, b2):
                sync(o, np.random.default_rng(5))
            if name.startswith(('Union', 'Nautilus')):
                # same generator state on both sides: the future proposal
                # stream and the volume estimate must coincide
                s1, s2 = b.sample(2500), b2.sample(2500)
                if not np.array_equal(s1, s2):
                    bad.append(dict(case=name, what='sample stream after the '
                                    'round trip differs'))
                if b.log_v != b2.log_v:
                    bad.append(dict(case=name, what='log_v after the round '
                                    'trip differs'))
            if name.startswith(('UnitCube', 'Ellipsoid', 'Mixture')):
                if not np.array_equal(b.sample(50), b2.sample(50)):
                    bad.append(dict(case=name, what='sample stream differs'))
                if b.log_v != b2.log_v:
                    bad.append(dict(case=name, what='log_v differs'))
        except Exception as e:
            bad.append(dict(case=name, what='raised {}: {}'.format(
                type(e).__name__, str(e)[:80])))
    # update(): serve points from the cache, update the file, read it back
    for drawn in (40, 1500):
        u = Union.compute(pts2, n_points_min=20, rng=np.random.default_rng(3))
        u.split()
        u.sample(100)
        path = os.path.join(d, 'u{}.h5'.format(drawn))
        try:
            with h5py.File(path, 'w') as f:
                u.write(f.create_group('b'))
            u.sample(drawn)
            with h5py.File(path, 'r+') as f:
                u.update(f['b'])
            with h5py.File(path, 'r') as f:
                u2 = Union.read(f['b'], rng=np.random.default_rng(1))
            if len(u2.points) != len(u.points) or not np.array_equal(
                    u2.points, u.points) or u2.n_sample != u.n_sample or \
                    u2.n_reject != u.n_reject:
                bad.append(dict(case='Union.update after sample({})'.format(
                    drawn), what='cache / counters read back ({} rows, n_sample'
                    ' {}) differ from the object ({} rows, n_sample {})'.format(
                        len(u2.points), u2.n_sample, len(u.points),
                        u.n_sample)))
        except Exception as e:
            bad.append(dict(case='Union.update', what='raised {}: {}'.format(
                type(e).__name__, str(e)[:80])))
print(json.dumps(dict(violations=bad[:8])))
sys.exit(1 if bad else 0)
