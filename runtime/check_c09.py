"""Concrete check of C09 on the real code: write/read round trip of every
bound class and state. usage: check_c09.py <repo>"""
import json
import os
import sys
import tempfile
import warnings
sys.path.insert(0, sys.argv[1])
warnings.filterwarnings('ignore')
import h5py  # noqa: E402
import numpy as np  # noqa: E402
from nautilus.bounds import (UnitCube, Ellipsoid, UnitCubeEllipsoidMixture,  # noqa
                             Union, NeuralBound, NautilusBound)
from nautilus.bounds.periodic import PhaseShift  # noqa: E402

bad = []
rngp = np.random.default_rng(7)
pts = rngp.normal(size=(400, 3)) * 0.05 + 0.5
pts2 = np.vstack([rngp.normal(size=(200, 3)) * 0.02 + 0.3,
                  rngp.normal(size=(200, 3)) * 0.02 + 0.7])
log_l = -np.sum((pts2 - 0.5)**2, axis=1)
probe = rngp.random((2000, 3))


def cases():
    r = lambda: np.random.default_rng(3)  # noqa: E731
    yield 'UnitCube', UnitCube, UnitCube.compute(3, rng=r())
    yield 'Ellipsoid', Ellipsoid, Ellipsoid.compute(pts, rng=r())
    yield 'Mixture', UnitCubeEllipsoidMixture, \
        UnitCubeEllipsoidMixture.compute(pts, rng=r())
    for unit in (True, False):
        for cls in (Ellipsoid, UnitCubeEllipsoidMixture):
            u = Union.compute(pts2, n_points_min=20, unit=unit,
                              bound_class=cls, rng=r())
            yield 'Union[unit={},{}]/fresh'.format(unit, cls.__name__), \
                Union, u
            u = Union.compute(pts2, n_points_min=20, unit=unit,
                              bound_class=cls, rng=r())
            u.split()
            u.sample(150)
            yield 'Union[unit={},{}]/split+sampled'.format(
                unit, cls.__name__), Union, u
    for periodic in (None, np.array([0])):
        for nn in (0, 1):
            b = NautilusBound.compute(
                pts2, log_l, np.median(log_l), np.log(0.01), n_networks=nn,
                periodic=periodic, rng=r())
            b.sample(120)
            yield 'NautilusBound[periodic={},networks={}]'.format(
                periodic is not None, nn), NautilusBound, b


with tempfile.TemporaryDirectory() as d:
    for k, (name, cls, b) in enumerate(cases()):
        path = os.path.join(d, 'b{}.h5'.format(k))
        try:
            with h5py.File(path, 'w') as f:
                b.write(f.create_group('b'))
            g = np.random.default_rng(99)
            with h5py.File(path, 'r') as f:
                b2 = cls.read(f['b'], rng=g)
            if hasattr(b, 'reset'):
                b.reset(np.random.default_rng(99))
                if name.startswith(('Union', 'Nautilus')):
                    # reset clears the proposal cache: compare streams from the
                    # state after the round trip instead
                    pass
            if not np.array_equal(b.contains(probe), b2.contains(probe)):
                bad.append(dict(case=name, what='contains differs'))
            if name.startswith(('UnitCube', 'Ellipsoid', 'Mixture')):
                if not np.array_equal(b.sample(50), b2.sample(50)):
                    bad.append(dict(case=name, what='sample stream differs'))
                if b.log_v != b2.log_v:
                    bad.append(dict(case=name, what='log_v differs'))
        except Exception as e:
            bad.append(dict(case=name, what='raised {}: {}'.format(
                type(e).__name__, str(e)[:80])))
print(json.dumps(dict(violations=bad[:8])))
sys.exit(1 if bad else 0)
