"""Concrete check of C10 on the real code. usage: check_c10.py <repo> [nscen]"""
import json
import sys
sys.path.insert(0, __import__('os').path.dirname(__file__))
import scenarios as SCN  # noqa: E402
repo = SCN.setup_repo()
import numpy as np  # noqa: E402
from nautilus import Sampler  # noqa: E402

nmax = int(sys.argv[2]) if len(sys.argv) > 2 else 3
bad = []
L = SCN.likelihoods()
for sc in SCN.SCENARIOS[:nmax]:
    for n_like_max in (0, 1, 137, 400, 10**9):
        calls = []
        outside = []

        def prior(x):
            if not np.all((x >= 0) & (x < 1)):
                outside.append(x.copy())
            return x

        def like(x, f=L[sc['like']]):
            calls.append(1)
            return f(x)
        kw = dict(n_dim=2, n_live=sc['n_live'], n_batch=sc['n_batch'],
                  n_networks=sc['n_networks'], seed=1)
        if sc.get('periodic') is not None:
            kw['periodic'] = np.array(sc['periodic'])
        s = Sampler(prior, like, **kw)
        per_step = []

        def cb(smp, w):
            if w == 'add_samples':
                per_step.append(len(calls))
        ok = SCN.run_with_hooks(s, cb, n_eff=500, n_shell=30,
                                n_like_max=n_like_max, verbose=False)
        tag = '{}/n_like_max={}'.format(sc['name'], n_like_max)
        if s.n_like != len(calls):
            bad.append(dict(where=tag, what='n_like != calls',
                            n_like=int(s.n_like), calls=len(calls)))
        d = np.diff([0] + per_step)
        if len(d) and not np.all(d == s.n_batch):
            bad.append(dict(where=tag, what='batch size', sizes=sorted(
                set(int(x) for x in d))))
        if outside:
            bad.append(dict(where=tag, what='point outside unit cube',
                            point=[repr(float(v)) for v in outside[0]]))
        if n_like_max > 0 and s.n_like >= n_like_max + s.n_batch:
            bad.append(dict(where=tag, what='budget exceeded by a full batch',
                            n_like=int(s.n_like)))
        if n_like_max == 0 and s.n_like != 0:
            bad.append(dict(where=tag, what='started a batch at the limit'))
        want = bool(s.explored and np.all(s.shell_n >= 30) and s.n_eff >= 500)
        if bool(ok) != want:
            bad.append(dict(where=tag, what='return value', got=bool(ok),
                            want=want))
        # continue in memory: total still counts
        if n_like_max == 137:
            before = len(calls)
            s.run(n_eff=500, n_shell=30, n_like_max=300, verbose=False)
            if s.n_like != len(calls):
                bad.append(dict(where=tag + '/continued',
                                what='n_like != calls after second run'))
print(json.dumps(dict(violations=bad[:10])))
sys.exit(1 if bad else 0)
