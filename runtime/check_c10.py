"""Concrete check of C10 on the real code. usage: check_c10.py <repo> [nscen]"""
import json
import sys
sys.path.insert(0, __import__('os').path.dirname(__file__))
import scenarios as SCN  # noqa: E402
repo = SCN.setup_repo()
import numpy as np  # noqa: E402
from nautilus import Sampler  # noqa: E402

nmax = int(sys.argv[2]) if len(sys.argv) > 2 else 3
bad = []
L = SCN.likelihoods()
for sc in SCN.SCENARIOS[:nmax]:
    for n_like_max in (0, 1, 137, 400, 10**9):
        calls = []
        outside = []

        def prior(x):
            if not np.all((x >= 0) & (x < 1)):
                outside.append(x.copy())
            return x

        def like(x, f=L[sc['like']]):
            calls.append(1)
            return f(x)
        kw = dict(n_dim=2, n_live=sc['n_live'], n_batch=sc['n_batch'],
                  n_networks=sc['n_networks'], seed=1)
        if sc.get('periodic') is not None:
            kw['periodic'] = np.array(sc['periodic'])
        s = Sampler(prior, like, **kw)
        per_step = []

        def cb(smp, w):
            if w == 'add_samples':
                per_step.append(len(calls))
        ok = SCN.run_with_hooks(s, cb, n_eff=500, n_shell=30,
                                n_like_max=n_like_max, verbose=False)
        tag = '{}/n_like_max={}'.format(sc['name'], n_like_max)
        if s.n_like != len(calls):
            bad.append(dict(where=tag, what='n_like != calls',
                            n_like=int(s.n_like), calls=len(calls)))
        d = np.diff([0] + per_step)
        if len(d) and not np.all(d == s.n_batch):
            bad.append(dict(where=tag, what='batch size', sizes=sorted(
                set(int(x) for x in d))))
        if outside:
            bad.append(dict(where=tag, what='point outside unit cube',
                            point=[repr(float(v)) for v in outside[0]]))
        if n_like_max > 0 and s.n_like >= n_like_max + s.n_batch:
            bad.append(dict(where=tag, what='budget exceeded by a full batch',
                            n_like=int(s.n_like)))
        if n_like_max == 0 and s.n_like != 0:
            bad.append(dict(where=tag, what='started a batch at the limit'))
        want = bool(s.explored and np.all(s.shell_n >= 30) and s.n_eff >= 500)
        if bool(ok) != want:
            bad.append(dict(where=tag, what='return value', got=bool(ok),
                            want=want))
        # continue in memory: total still counts
        if n_like_max == 137:
            before = len(calls)
            s.run(n_eff=500, n_shell=30, n_like_max=300, verbose=False)
            if s.n_like != len(calls):
                bad.append(dict(where=tag + '/continued',
                                what='n_like != calls after second run'))
# the return value is the success predicate of the final state for every
# requested shell occupation (also requests between the occupation of the
# early shells and the number of proposals)
for sc in SCN.SCENARIOS[:nmax]:
    for n_shell in (int(0.6 * sc['n_live']), int(0.9 * sc['n_live']),
                    int(1.5 * sc['n_live'])):
        s = SCN.make_sampler(sc, seed=3)
        ok = s.run(n_eff=100, n_shell=n_shell, verbose=False)
        want = bool(s.explored and np.all(s.shell_n >= n_shell) and
                    s.n_eff >= 100)
        tag = '{}/n_shell={}'.format(sc['name'], n_shell)
        if bool(ok) != want:
            bad.append(dict(where=tag, what='run() returned {} but the final '
                            'state has min(shell_n) = {}, n_eff = {:.1f}'
                            .format(bool(ok), int(np.min(s.shell_n)),
                                    float(s.n_eff))))
        elif ok and not np.all(s.shell_n >= n_shell):
            bad.append(dict(where=tag, what='success with a shell below '
                            'n_shell'))
# periodic in one parameter only, likelihood peak at the edge of another one:
# no evaluated point may leave the unit cube in any coordinate
for seed in (0, 1):
    outside = []

    def prior_e(x):
        if not np.all((x >= 0) & (x < 1)):
            outside.append(x.copy())
        return x

    def like_e(x):
        d = np.array([min(abs(x[0] - 0.02), 1 - abs(x[0] - 0.02)),
                      x[1] - 0.985, x[2] - 0.5])
        return -0.5 * float(np.sum((d / 0.06)**2))
    s = Sampler(prior_e, like_e, n_dim=3, n_live=150, n_batch=50,
                n_networks=0, periodic=np.array([0]), seed=seed)
    s.run(n_eff=200, n_like_max=6000, verbose=False)
    if outside:
        bad.append(dict(where='periodic=[0], peak at the edge of parameter 1, '
                        'seed {}'.format(seed),
                        what='{} evaluated points outside the unit cube'
                        .format(len(outside)),
                        point=[repr(float(v)) for v in outside[0]]))
print(json.dumps(dict(violations=bad[:10])))
sys.exit(1 if bad else 0)
