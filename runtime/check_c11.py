"""Concrete check of C11 on the real code: same seed -> bit-identical results
whatever the evaluation mode / observation. usage: check_c11.py <repo>"""
import io
import json
import os
import sys
import tempfile
import contextlib
import warnings
sys.path.insert(0, sys.argv[1])
warnings.filterwarnings('ignore')
import numpy as np  # noqa: E402
from nautilus import Sampler  # noqa: E402

bad = []


def like(x):
    return -0.5 * np.sum(((x - 5.0) / 1.0)**2, axis=-1), x[..., 0] * 2.0


def prior(u):
    u *= 10          # in-place prior
    return u


def result(s):
    p, w, l_, b = s.posterior(return_blobs=True)
    return dict(n_like=int(s.n_like), log_z=float(s.log_z), n_eff=float(
        s.n_eff), p=p, w=w, l=l_, b=b)


def same(a, b):
    return a['n_like'] == b['n_like'] and a['log_z'] == b['log_z'] and \
        a['n_eff'] == b['n_eff'] and all(np.array_equal(a[k], b[k])
                                         for k in 'pwlb')


class Budget(Exception):
    pass


def _alarm(signum, frame):
    raise Budget()


def run(vectorized=False, verbose=False, filepath=None, poke=False, pool=None,
        n_like_max=np.inf):
    s = Sampler(prior, like, n_dim=2, n_live=150, n_batch=30, n_networks=1,
                vectorized=vectorized, seed=11, filepath=filepath, pool=pool)
    if poke:
        cls = type(s)
        orig = cls.add_samples

        def add_samples(self, *a, **k):
            r = orig(self, *a, **k)
            self.log_z, self.n_eff, self.eta, self.f_live
            self.posterior()
            self.shell_bound_occupation()
            with warnings.catch_warnings():
                warnings.simplefilter('ignore')
                self.evidence(), self.effective_sample_size()
                self.asymptotic_sampling_efficiency()
            return r
        cls.add_samples = add_samples
    try:
        with contextlib.redirect_stdout(io.StringIO()):
            s.run(n_eff=400, n_shell=160, verbose=verbose,
                  n_like_max=n_like_max)
    finally:
        if poke:
            cls.add_samples = orig
    return result(s)


import signal  # noqa: E402
signal.signal(signal.SIGALRM, _alarm)
MODES = [('vectorized', dict(vectorized=True)),
         ('verbose', dict(verbose=True)),
         ('accessors_between_steps', dict(poke=True)),
         ('likelihood_pool2', dict(pool=(2, None))),
         ('likelihood_pool3', dict(pool=(3, None)))]
undecided = []
# stage by stage: one batch, a few batches, the full run; a stage is skipped
# (undecided, never a violation) if a run exceeds its time budget
for stage, (nmax, budget) in enumerate(((30, 120), (600, 240),
                                        (np.inf, 600))):
    if bad:
        break
    try:
        signal.alarm(budget)
        ref = run(n_like_max=nmax)
        signal.alarm(0)
    except Budget:
        undecided.append('reference run, stage {}'.format(stage))
        continue
    for name, kw in MODES:
        try:
            signal.alarm(budget)
            r = run(n_like_max=nmax, **kw)
            signal.alarm(0)
        except Budget:
            undecided.append('{} stage {}'.format(name, stage))
            continue
        if not same(ref, r):
            bad.append(dict(what='result depends on ' + name,
                            n_like_max=str(nmax), seed=11))
    with tempfile.TemporaryDirectory() as d:
        try:
            signal.alarm(budget)
            r = run(filepath=os.path.join(d, 'c.h5'), n_like_max=nmax)
            signal.alarm(0)
            if not same(ref, r):
                bad.append(dict(what='result depends on writing a checkpoint',
                                n_like_max=str(nmax)))
        except Budget:
            undecided.append('checkpoint stage {}'.format(stage))
signal.alarm(0)


# second configuration for the checkpoint comparison: batches much smaller
# than the live set (transfer candidates are consumed over several batches),
# ring-shaped likelihood (many bounds), blob = a coordinate
def ring(x):
    r = np.sqrt(np.sum((4.0 * x - 2.0)**2, axis=-1))
    return -0.5 * ((r - 1.0) / 0.1)**2, x[..., 0]


def run2(filepath):
    s = Sampler(lambda u: u, ring, n_dim=2, n_live=400, n_networks=1,
                n_batch=50, seed=7, filepath=filepath)
    s.run(f_live=0.02, n_eff=600, verbose=False)
    return result(s)


if not bad:
    try:
        signal.alarm(600)
        a = run2(None)
        with tempfile.TemporaryDirectory() as d:
            b = run2(os.path.join(d, 'c.h5'))
        signal.alarm(0)
        if not same(a, b):
            which = [k for k in 'pwlb' if not np.array_equal(a[k], b[k])]
            bad.append(dict(what='result depends on writing a checkpoint '
                            '(ring likelihood, n_live=400, n_batch=50, seed 7)',
                            differing=''.join(which)))
    except Budget:
        undecided.append('checkpoint, ring configuration')
signal.alarm(0)
print(json.dumps(dict(violations=bad, undecided=undecided)))
sys.exit(1 if bad else 0)
