"""Concrete check of C12 on the real code. usage: check_c12.py <repo> [nscen]"""
import json
import sys
sys.path.insert(0, __import__('os').path.dirname(__file__))
import scenarios as SCN  # noqa: E402
repo = SCN.setup_repo()
import numpy as np  # noqa: E402

nmax = int(sys.argv[2]) if len(sys.argv) > 2 else 3
bad = []
STAT = ['shell_n', 'shell_log_v', 'shell_log_l', 'shell_n_eff']


def snap(s):
    return dict(ids=[id(b) for b in s.bounds],
                pts=[p.copy() for p in s.points],
                ll=[x.copy() for x in s.log_l],
                end=np.copy(s.shell_end_exp))


for sc in SCN.SCENARIOS[:nmax]:
    for disc in (False, True):
        s = SCN.make_sampler(sc, seed=2)
        state = dict(prev=None, explored=False)
        tag = '{}/discard={}'.format(sc['name'], disc)

        def cb(smp, w):
            if state['explored'] and not smp.explored:
                bad.append(dict(where=tag, what='exploration resumed'))
            if smp.explored:
                if state['explored'] and state['prev'] is not None:
                    pv = state['prev']
                    if pv['ids'] != [id(b) for b in smp.bounds]:
                        bad.append(dict(where=tag, what='bounds changed'))
                    for i, (a, b) in enumerate(zip(pv['pts'], smp.points)):
                        if len(b) < len(a) or not np.array_equal(
                                a, b[:len(a)]):
                            bad.append(dict(where=tag, shell=i,
                                            what='not append-only'))
                    if not np.array_equal(pv['end'], smp.shell_end_exp):
                        bad.append(dict(where=tag,
                                        what='exploration snapshot changed'))
                if any(len(p) == 0 for p in smp.points):
                    bad.append(dict(where=tag, what='empty shell after '
                                    'exploration'))
                state['prev'] = snap(smp)
            state['explored'] = bool(smp.explored)
        SCN.run_with_hooks(s, cb, n_eff=400, n_shell=int(1.3 * sc['n_live']),
                           discard_exploration=disc, verbose=False)
        # toggling is a pure view
        before = {k: np.copy(getattr(s, k)) for k in STAT}
        flag = s.discard_exploration
        s.discard_exploration = not flag
        if not flag:
            pts, log_w, log_l = s.posterior()
            n_after = sum(len(p) - e for p, e in zip(s.points,
                                                     s.shell_end_exp))
            if len(pts) != n_after:
                bad.append(dict(where=tag, what='discard view size',
                                got=len(pts), want=int(n_after)))
        s.discard_exploration = flag
        for k in STAT:
            if not np.array_equal(before[k], getattr(s, k), equal_nan=True):
                bad.append(dict(where=tag, what='toggle did not restore ' + k))
print(json.dumps(dict(violations=bad[:10])))
sys.exit(1 if bad else 0)
