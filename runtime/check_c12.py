"""Concrete check of C12 on the real code. usage: check_c12.py <repo> [nscen]"""
import json
import sys
sys.path.insert(0, __import__('os').path.dirname(__file__))
import scenarios as SCN  # noqa: E402
repo = SCN.setup_repo()
import numpy as np  # noqa: E402

nmax = int(sys.argv[2]) if len(sys.argv) > 2 else 3
bad = []
STAT = ['shell_n', 'shell_log_v', 'shell_log_l', 'shell_n_eff']


def snap(s):
    return dict(ids=[id(b) for b in s.bounds],
                pts=[p.copy() for p in s.points],
                ll=[x.copy() for x in s.log_l],
                end=np.copy(s.shell_end_exp))


for sc in SCN.SCENARIOS[:nmax]:
    for disc in (False, True):
        s = SCN.make_sampler(sc, seed=2)
        state = dict(prev=None, explored=False)
        tag = '{}/discard={}'.format(sc['name'], disc)

        def cb(smp, w):
            if state['explored'] and not smp.explored:
                bad.append(dict(where=tag, what='exploration resumed'))
            if smp.explored:
                if state['explored'] and state['prev'] is not None:
                    pv = state['prev']
                    if pv['ids'] != [id(b) for b in smp.bounds]:
                        bad.append(dict(where=tag, what='bounds changed'))
                    for i, (a, b) in enumerate(zip(pv['pts'], smp.points)):
                        if len(b) < len(a) or not np.array_equal(
                                a, b[:len(a)]):
                            bad.append(dict(where=tag, shell=i,
                                            what='not append-only'))
                    if not np.array_equal(pv['end'], smp.shell_end_exp):
                        bad.append(dict(where=tag,
                                        what='exploration snapshot changed'))
                if any(len(p) == 0 for p in smp.points):
                    bad.append(dict(where=tag, what='empty shell after '
                                    'exploration'))
                state['prev'] = snap(smp)
            state['explored'] = bool(smp.explored)
        SCN.run_with_hooks(s, cb, n_eff=400, n_shell=int(1.3 * sc['n_live']),
                           discard_exploration=disc, verbose=False)
        # toggling is a pure view
        before = {k: np.copy(getattr(s, k)) for k in STAT}
        flag = s.discard_exploration
        s.discard_exploration = not flag
        if not flag:
            pts, log_w, log_l = s.posterior()
            n_after = sum(len(p) - e for p, e in zip(s.points,
                                                     s.shell_end_exp))
            if len(pts) != n_after:
                bad.append(dict(where=tag, what='discard view size',
                                got=len(pts), want=int(n_after)))
        s.discard_exploration = flag
        for k in STAT:
            if not np.array_equal(before[k], getattr(s, k), equal_nan=True):
                bad.append(dict(where=tag, what='toggle did not restore ' + k))
# ---- histories around the end of exploration
from nautilus import Sampler  # noqa: E402
import signal  # noqa: E402


class Budget(Exception):
    pass


def _alarm(signum, frame):
    raise Budget()


signal.signal(signal.SIGALRM, _alarm)
undecided = []


def view_consistent(s, tag):
    """the per-shell counts describe the view selected by the flag"""
    if len(s.shell_end_exp) != len(s.points) or len(
            s.shell_n_sample_exp) != len(s.points):
        bad.append(dict(where=tag, what='exploration snapshot has {} entries '
                        'for {} shells'.format(len(s.shell_end_exp),
                                               len(s.points))))
        return
    for i, p in enumerate(s.points):
        start = int(s.shell_end_exp[i]) if s.discard_exploration else 0
        if start > len(p):
            bad.append(dict(where=tag, shell=i, what='exploration end {} '
                            'beyond the {} stored points'.format(start,
                                                                 len(p))))
        elif int(s.shell_n[i]) != len(p) - start:
            bad.append(dict(where=tag, shell=i, what='shell_n {} but the view '
                            'holds {} points (discard={})'.format(
                                int(s.shell_n[i]), len(p) - start,
                                s.discard_exploration)))


def _like(x):
    return -0.5 * float(np.sum(((x - 0.5) / 0.1)**2))


for seed in (0, 1, 2):
    # tiny live set: empty shells are removed when exploration ends
    kw = dict(n_dim=2, n_live=10, n_batch=1, n_update=1, n_networks=0,
              seed=seed)
    s = Sampler(SCN.prior, _like, **kw)
    tag0 = 'tiny live set, discard in run(), seed {}'.format(seed)

    class Stop(Exception):
        pass

    def watch(smp, w, tag0=tag0):
        # first batch boundary after the end of exploration
        if smp.explored:
            n0 = len(bad)
            view_consistent(smp, tag0 + ', first batch after exploration')
            if len(bad) > n0:
                raise Stop()
    try:
        signal.alarm(240)
        SCN.run_with_hooks(s, watch, f_live=1e-3, n_eff=30,
                           discard_exploration=True, verbose=False)
        signal.alarm(0)
    except Stop:
        signal.alarm(0)
        continue
    except Budget:
        undecided.append(tag0)
        continue
    view_consistent(s, tag0)
    s.discard_exploration = False
    view_consistent(s, 'tiny live set, discard switched off, seed {}'.format(
        seed))
    s.discard_exploration = True
    view_consistent(s, 'tiny live set, discard switched on again, seed {}'
                    .format(seed))
    # flag set while still exploring, then asserted again by run()
    s = Sampler(SCN.prior, _like, n_dim=2, n_live=100, n_networks=0, seed=seed)
    try:
        signal.alarm(240)
        s.run(n_like_max=300, verbose=False)
        s.discard_exploration = True
        s.run(n_eff=200, discard_exploration=True, verbose=False)
        signal.alarm(0)
    except Budget:
        undecided.append('flag set during exploration, seed {}'.format(seed))
        continue
    view_consistent(s, 'flag set during exploration, seed {}'.format(seed))
    a = {k: np.copy(getattr(s, k)) for k in STAT}
    s.discard_exploration = False
    s.discard_exploration = True
    for k in STAT:
        if not np.array_equal(a[k], getattr(s, k), equal_nan=True):
            bad.append(dict(where='flag set during exploration, seed {}'
                            .format(seed), what='off/on toggle changed ' + k))
print(json.dumps(dict(violations=bad[:10], undecided=undecided)))
sys.exit(1 if bad else 0)
