"""Bounded concrete check of C13 on the real Union: all operation words up to
length N over {split, split(no overlap), trim, sample} on several point sets.
usage: check_c13.py <repo> [N]"""
import itertools
import json
import sys
import warnings
sys.path.insert(0, sys.argv[1])
warnings.filterwarnings('ignore')
import numpy as np  # noqa: E402
from nautilus.bounds import Union, Ellipsoid  # noqa: E402

N = int(sys.argv[2]) if len(sys.argv) > 2 else 3
ONLY = sys.argv[3] if len(sys.argv) > 3 else None     # dataset name prefix
OPS = ['split', 'split_no', 'trim', 'sample']
bad = []
NPM = [0]


def datasets():
    """(name, points, n_points_min, seed, operation alphabet, max length)"""
    out = []
    rng = np.random.default_rng(0)
    a = rng.normal(size=(200, 3))
    b = rng.normal(size=(200, 3)) + 10
    c = rng.normal(size=(30, 3)) + 1e7
    out.append(('two+far', np.vstack([a, b, c]), 50, 0, ['split', 'trim'],
                max(N, 4)))
    # tight core + halo: unbalanced GMM labels
    rng = np.random.default_rng(26)
    core = rng.normal(size=(56, 2)) * 1e-3 + 0.5
    halo = rng.normal(size=(51, 2)) * 0.2 + 0.5
    out.append(('core+halo', np.vstack([core, halo]), 52, 26, OPS, N))
    rng = np.random.default_rng(3)
    out.append(('single', rng.normal(size=(150, 3)) * 0.05 + 0.5, 40, 7, OPS,
                N))
    # three discs of different density, the sparsest one in the middle of the
    # record list after the first splits (refused and successful trims that
    # hit a record which is not the last one)
    for k, (dens, npm_) in enumerate((((400, 40, 150), 15), ((300, 19, 19,
                                                              300), 10))):
        rng = np.random.default_rng(40 + k)
        parts = []
        for j, m in enumerate(dens):
            rad = 0.02 if m >= 100 else (0.2 if m >= 30 else 0.01)
            parts.append(rng.normal(size=(m, 2)) * rad + 3.0 * j)
        out.append(('discs{}'.format(k), np.vstack(parts), npm_, 5 + k,
                    ['split', 'trim'], max(N, 4)))
    # a dense disc, a huge very sparse disc (the trim candidate) and a small
    # double cluster with fewer than 2 * n_points_min points (never
    # splittable); the record order after the splits depends on the seed
    def disc(rng, n, r, c):
        x = rng.normal(size=(n, 2))
        x /= np.linalg.norm(x, axis=1)[:, None]
        return x * (rng.uniform(size=n)[:, None]**0.5) * r + np.array(c)
    for sd in (1, 2, 3, 4):
        rng = np.random.default_rng(60 + sd)
        pts = np.vstack([disc(rng, 250, 1.0, [0., 0.]),
                         disc(rng, 40, 250.0, [2500., 0.]),
                         disc(rng, 11, 0.04, [2500., 600.]),
                         disc(rng, 10, 0.04, [2501.5, 600.])])
        out.append(('sparse+double{}'.format(sd), pts, 11, sd,
                    ['split', 'trim'], 5))
    # extreme volumes: log-volumes far below / above the range of exp()
    rng = np.random.default_rng(9)
    base = np.vstack([rng.normal(size=(120, 3)), rng.normal(size=(120, 3)) + 8,
                      rng.normal(size=(25, 3)) * 30 + 200])
    for nm, sc in (('scale1e-110', 1e-110), ('scale1e+110', 1e110)):
        out.append((nm, base * sc, 40, 3, ['split', 'trim', 'sample'], 3))
    return out


def snapshot(u):
    return (list(u.bounds), [p.copy() for p in u.points_bounds],
            np.copy(u.log_v_all))


def rows_set(plist):
    return sorted(map(tuple, np.vstack(plist).tolist())) if plist else []


def check(u, tag, all_rows, trimmed):
    n = len(u.bounds)
    if not (len(u.points_bounds) == n == len(u.log_v_all) == len(u.block)):
        bad.append(dict(word=tag, what='records inconsistent', lens=[
            n, len(u.points_bounds), len(u.log_v_all), len(u.block)]))
        return False
    for i in range(n):
        if u.log_v_all[i] != u.bounds[i].log_v:
            bad.append(dict(word=tag, what='log_v_all[{}] is not the volume of '
                            'member {}'.format(i, i)))
            return False
        if not np.all(u.bounds[i].contains(u.points_bounds[i])):
            bad.append(dict(word=tag, what='points_bounds[{}] are not inside '
                            'member {}'.format(i, i)))
            return False
        if len(u.points_bounds[i]) < NPM[0]:
            bad.append(dict(word=tag, what='member {} holds {} < n_points_min '
                            'points'.format(i, len(u.points_bounds[i]))))
            return False
    if rows_set(u.points_bounds) != sorted(
            r for r in all_rows if r not in trimmed):
        bad.append(dict(word=tag, what='points are not the construction '
                        'points minus trimmed'))
    return True


nwords = 0
for (name, pts, npm, seed, ops, nmax) in datasets():
    if ONLY is not None and not name.startswith(ONLY):
        continue
    NPM[0] = min(npm, len(pts))
    for n in range(1, nmax + 1):
        for word in itertools.product(ops, repeat=n):
            nwords += 1
            u = Union.compute(pts, enlarge_per_dim=1.1, n_points_min=npm,
                              bound_class=Ellipsoid, unit=False,
                              rng=np.random.default_rng(seed))
            all_rows = sorted(map(tuple, pts.tolist()))
            trimmed = set()
            tag = name + ':' + '.'.join(word)
            for op in word:
                before = snapshot(u)
                try:
                    if op == 'sample':
                        r = u.sample(50)
                        ok = None
                    elif op == 'trim':
                        ok = u.trim()
                    else:
                        vol_before = u.log_v_all.copy()
                        ok = u.split(allow_overlap=(op == 'split'))
                except Exception as e:
                    bad.append(dict(word=tag, op=op, what='raised ' +
                                    type(e).__name__ + ': ' + str(e)[:80]))
                    break
                after = snapshot(u)
                if ok is False or op == 'sample':
                    if list(map(id, before[0])) != list(map(id, after[0])) \
                            or not np.array_equal(
                            before[2], after[2]) or any(
                            not np.array_equal(x, y) for x, y in zip(
                                before[1], after[1])):
                        bad.append(dict(word=tag, op=op, what='refused / '
                                        'sampling changed the records'))
                if ok is True and op.startswith('split'):
                    sizes = [len(u.points_bounds[-2]), len(u.points_bounds[-1])]
                    if min(sizes) < npm:
                        bad.append(dict(word=tag, op=op, what='split produced '
                                        'a cluster below n_points_min',
                                        sizes=sizes, n_points_min=npm))
                    if np.logaddexp.reduce(u.log_v_all) > np.logaddexp.reduce(
                            before[2]) + 1e-9:
                        bad.append(dict(word=tag, op=op,
                                        what='split increased the volume'))
                if ok is True and op == 'trim':
                    kept = set(map(id, after[0]))
                    for i, b in enumerate(before[0]):
                        if id(b) not in kept:
                            trimmed |= set(map(tuple, before[1][i].tolist()))
                if not check(u, tag, all_rows, trimmed):
                    break
            if len(bad) > 6:
                break
        if len(bad) > 6:
            break
print(json.dumps(dict(words=nwords, violations=bad[:8]), default=str))
sys.exit(1 if bad else 0)
