"""Concrete check of C14 on the real code. usage: check_c14.py <repo>"""
import json
import sys
sys.path.insert(0, __import__('os').path.dirname(__file__))
import scenarios as SCN  # noqa: E402
repo = SCN.setup_repo()
import numpy as np  # noqa: E402

bad = []
from nautilus import Sampler  # noqa: E402


def shifted(offset):
    """Gaussian whose log-likelihood carries a large constant: weights near
    the underflow / overflow thresholds of binary64"""
    def like(x):
        return -0.5 * float(np.sum(((x - 0.5) / 0.1)**2)) + offset
    return like


cases = [(dict(sc), None) for sc in (SCN.SCENARIOS[0], SCN.SCENARIOS[5])]
for off in (-730.0, -738.0, -741.0, 690.0):
    cases.append((dict(name='gauss{:+.0f}'.format(off), like='gauss'), off))
for sc, off in cases:
    if off is None:
        s = SCN.make_sampler(sc, seed=3)
    else:
        s = Sampler(SCN.prior, shifted(off), n_dim=2, n_live=200, n_batch=50,
                    n_networks=0, seed=3)
    s.run(n_eff=300, verbose=False)
    blobs = sc['like'] == 'gauss_blob'
    stat = {k: np.copy(getattr(s, k)) for k in (
        'shell_n', 'shell_log_v', 'shell_log_l', 'shell_n_eff')}
    npts = [p.copy() for p in s.points]
    r0 = s.posterior(return_blobs=blobs)
    p_w, lw, ll = r0[0], r0[1], r0[2]
    for boost in (0.3, 1.0, 2.5, 40.0):
        tag = '{}/boost={}'.format(sc['name'], boost)
        counts_sum = np.zeros(len(p_w))
        first = None
        for rep in range(12):
            try:
                r = s.posterior(equal_weight=True, equal_weight_boost=boost,
                                return_blobs=blobs)
            except Exception as e:
                bad.append(dict(where=tag, what='raised {}: {}'.format(
                    type(e).__name__, str(e)[:80])))
                break
            pe, lwe, lle = r[0], r[1], r[2]
            rel = np.exp(lw - np.amax(lw)) * boost
            # recover multiplicities: rows keep their order
            idx = []
            j = 0
            ok = True
            for row, l_ in zip(pe, lle):
                while j < len(p_w) and not (np.array_equal(p_w[j], row) and
                                            ll[j] == l_):
                    j += 1
                if j == len(p_w):
                    ok = False
                    break
                idx.append(j)
            if not ok:
                bad.append(dict(where=tag, what='rows reordered or not rows '
                                'of the weighted posterior'))
                break
            cnt = np.bincount(np.array(idx, dtype=int), minlength=len(p_w))
            fl = np.floor(rel)
            if np.any(cnt < fl) or np.any(cnt > fl + 1):
                k = int(np.flatnonzero((cnt < fl) | (cnt > fl + 1))[0])
                bad.append(dict(where=tag, what='count not floor/floor+1',
                                r=float(rel[k]), count=int(cnt[k])))
                break
            if boost <= 1 and np.any(cnt > 1):
                bad.append(dict(where=tag, what='repeat with boost <= 1'))
            if len(lwe) and not (np.allclose(lwe, lwe[0]) and abs(
                    np.logaddexp.reduce(lwe)) < 1e-9):
                bad.append(dict(where=tag, what='weights not equal/normalised'))
            if blobs and not np.array_equal(r[3], r0[3][idx]):
                bad.append(dict(where=tag, what='blobs do not follow rows'))
            counts_sum += cnt
            if first is None:
                first = cnt
            elif rep == 11 and np.array_equal(first, cnt) and np.any(
                    rel - fl > 1e-3) and np.array_equal(
                    counts_sum, 12 * cnt):
                bad.append(dict(where=tag, what='every draw identical: the '
                                'generator is not advanced'))
        for k in stat:
            if not np.array_equal(stat[k], getattr(s, k), equal_nan=True):
                bad.append(dict(where=tag, what='posterior() modified ' + k))
        if any(not np.array_equal(a, b) for a, b in zip(npts, s.points)):
            bad.append(dict(where=tag, what='posterior() modified points'))
print(json.dumps(dict(violations=bad[:8])))
sys.exit(1 if bad else 0)
