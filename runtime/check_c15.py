"""Bounded concrete check of C15 on the real Prior: all declaration sequences
up to length N over a small alphabet. usage: check_c15.py <repo> [N]"""
import itertools
import json
import numbers
import sys
sys.path.insert(0, sys.argv[1])
import numpy as np  # noqa: E402
from scipy.stats import norm  # noqa: E402
from nautilus import Prior  # noqa: E402

N = int(sys.argv[2]) if len(sys.argv) > 2 else 3
KEYS = [None, 'a', 'b', 'x_0', 'x_1', 'x_2', 5]
DISTS = [(0.0, 2.0), 2.5, norm(loc=1.0, scale=2.0), 'a', 'x_0', 'x_1', 'zz',
         [1, 2]]
bad = []
n_seq = 0


def state(p):
    return (list(p.keys), [repr(d) if not hasattr(d, 'isf') else id(d)
                           for d in p.dists])


def check_prior(p, tag):
    if len(p.keys) != len(p.dists):
        bad.append(dict(seq=tag, what='keys/dists length differ'))
        return
    if len(set(p.keys)) != len(p.keys):
        bad.append(dict(seq=tag, what='duplicate key', keys=list(p.keys)))
        return
    free = [d for d in p.dists if hasattr(d, 'isf')]
    if p.dimensionality() != len(free):
        bad.append(dict(seq=tag, what='dimensionality'))
    for j, d in enumerate(p.dists):
        if isinstance(d, str):
            if d not in p.keys[:j] or isinstance(
                    p.dists[p.keys.index(d)], str):
                bad.append(dict(seq=tag, what='link target invalid'))
                return
    if not free:
        return
    rng = np.random.default_rng(0)
    for shape in ((len(free),), (4, len(free)), (1, len(free))):
        u = rng.random(shape)
        u0 = u.copy()
        x = p.unit_to_physical(u)
        if x.shape != u.shape or not np.array_equal(u, u0):
            bad.append(dict(seq=tag, what='shape/in-place: input shape {} '
                            'gave {}'.format(u.shape, x.shape)))
            continue
        for i, d in enumerate(free):
            if not np.allclose(x[..., i], d.ppf(u[..., i])):
                bad.append(dict(seq=tag, what='column is not inverse cdf'))
        dd = p.physical_to_dictionary(x)
        if sorted(dd.keys()) != sorted(p.keys):
            bad.append(dict(seq=tag, what='dictionary keys'))
            continue
        i = 0
        for k, d in zip(p.keys, p.dists):
            if hasattr(d, 'isf'):
                if not np.array_equal(dd[k], x[..., i]):
                    bad.append(dict(seq=tag, what='free value'))
                i += 1
            elif isinstance(d, numbers.Number):
                if not np.all(dd[k] == d):
                    bad.append(dict(seq=tag, what='fixed value'))
            else:
                if not np.array_equal(dd[k], dd[d]):
                    bad.append(dict(seq=tag, what='linked value'))


for n in range(1, N + 1):
    for seq in itertools.product(itertools.product(KEYS, range(len(DISTS))),
                                 repeat=n):
        n_seq += 1
        p = Prior()
        ok = True
        tag = [(k, repr(DISTS[d])[:30]) for k, d in seq]
        for (k, di) in seq:
            before = state(p)
            try:
                p.add_parameter(k, DISTS[di])
            except (ValueError, TypeError):
                if state(p) != before:
                    bad.append(dict(seq=tag, what='rejected declaration '
                                    'changed the prior', keys=list(p.keys),
                                    n_dists=len(p.dists)))
                    ok = False
                    break
            except Exception as e:
                bad.append(dict(seq=tag, what='raised ' + type(e).__name__))
                ok = False
                break
        if ok:
            check_prior(p, tag)
        if len(bad) > 8:
            break
    if len(bad) > 8:
        break
print(json.dumps(dict(sequences=n_seq, violations=bad[:8]), default=str))
sys.exit(1 if bad else 0)
