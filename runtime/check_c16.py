"""Concrete search for C16 violations on the real PhaseShift.
usage: check_c16.py <repo> [quick|full]
Random and adversarial point sets / periodic index sets (not only prefixes
0..k-1): range closure, frame, inverse up to rounding modulo one, and the
largest cyclic gap of every periodic column placed across the boundary."""
import json
import sys
import numpy as np
sys.path.insert(0, sys.argv[1])
from nautilus.bounds.periodic import PhaseShift  # noqa: E402

mode = sys.argv[2] if len(sys.argv) > 2 else 'quick'
rg = np.random.default_rng(16)
bad = []
TOL = 1e-12


def circ(a, b):
    d = np.abs(a - b) % 1
    return np.minimum(d, 1 - d)


special = np.array([0.0, np.nextafter(0, 1), 0.5, np.nextafter(0.5, 0),
                    np.nextafter(0.5, 1), np.nextafter(1, 0), 0.25, 0.75])
for trial in range(400 if mode == 'quick' else 4000):
    nd = int(rg.integers(1, 6))
    n = int(rg.integers(1, 8))
    pts = rg.random((n, nd))
    kind = trial % 4
    if kind == 1:
        pts = rg.choice(special, size=(n, nd))
    elif kind == 2:      # a mode wrapping around the boundary
        pts = (rg.normal(size=(n, nd)) * 0.05) % 1
    k = int(rg.integers(0, nd + 1))
    per = rg.permutation(nd)[:k]
    case = dict(points=pts.tolist(), periodic=per.tolist())
    try:
        b = PhaseShift.compute(pts, per)
    except Exception as e:     # noqa
        bad.append(dict(case=case, what='compute raised ' + repr(e)))
        continue
    if len(b.centers) != k or np.any(b.centers < 0) or np.any(b.centers >= 1):
        bad.append(dict(case=case, what='centres not in [0,1): {}'.format(
            b.centers.tolist())))
        continue
    probe = np.vstack([pts, rg.random((20, nd)),
                       rg.choice(special, size=(10, nd))])
    # coordinates just below / above the wrap position of every periodic
    # parameter (forward and inverse direction)
    for i, d in enumerate(per):
        for sgn in (+1, -1):
            wrap = (sgn * (b.centers[i] - 0.5)) % 1
            for delta in (1e-4, 3e-6, 1e-9, 1e-13, -1e-9, -3e-6):
                row = rg.random(nd)
                row[d] = (wrap - delta) % 1
                probe = np.vstack([probe, row])
    keep = probe.copy()
    for inv in (False, True):
        t = b.transform(probe, inverse=inv)
        if not np.array_equal(probe, keep):
            bad.append(dict(case=case, what='transform modified its input'))
        if np.any(t < 0) or np.any(t >= 1):
            bad.append(dict(case=case, inverse=inv, what='left the unit cube'))
        non = np.setdiff1d(np.arange(nd), per)
        if not np.array_equal(t[:, non], probe[:, non]):
            bad.append(dict(case=case, inverse=inv,
                            what='non-periodic coordinate changed'))
        back = b.transform(t, inverse=not inv)
        if np.any(circ(back, probe) > 1e-9):
            bad.append(dict(case=case, inverse=inv,
                            what='inverse does not undo the shift'))
    t = b.transform(pts)
    for i, d in enumerate(per):
        x = np.sort(pts[:, d])
        g = np.max(np.append(np.diff(x), x[0] - (x[-1] - 1)))
        s = t[:, d]
        # distance of every shifted construction coordinate from the boundary
        if np.any(np.minimum(s, 1 - s) < g / 2 - 1e-9):
            bad.append(dict(case=case, what='largest gap ({:.4f}) of periodic '
                            'parameter {} is not across the boundary: shifted '
                            'coordinates {}'.format(g, int(d), s.tolist())))
    if len(bad) >= 5:
        break
print(json.dumps(dict(violations=bad[:5])))
sys.exit(1 if bad else 0)
