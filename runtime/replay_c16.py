"""Replay for C16 range closure: run the real PhaseShift.transform on given
(x, center, inverse) triples; exit 1 if any result leaves [0, 1)."""
import json
import sys
import numpy as np
sys.path.insert(0, sys.argv[1])
from nautilus.bounds.periodic import PhaseShift  # noqa: E402

cases = json.loads(sys.argv[2])
bad = []
for (x, c, inv) in cases:
    s = PhaseShift()
    s.periodic = np.array([0])
    s.centers = np.array([c])
    p = np.array([[x, 0.5]])
    t = s.transform(p, inverse=bool(inv))
    v = float(t[0, 0])
    if not (0.0 <= v < 1.0) or t[0, 1] != 0.5:
        bad.append(dict(x=repr(x), center=repr(c), inverse=bool(inv),
                        result=repr(v)))
print(json.dumps(bad))
sys.exit(1 if bad else 0)
