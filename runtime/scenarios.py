"""Small deterministic sampler scenarios run against the real code (replay leg
and bounded stand-ins). Run under /venv/bin/python with the repo on sys.path."""
import os
import sys
import warnings

import numpy as np

warnings.filterwarnings('ignore')


def likelihoods():
    def gauss(x):
        return -0.5 * np.sum(((x - 0.5) / 0.1)**2)

    def two_modes(x):
        a = -0.5 * np.sum(((x - 0.25) / 0.05)**2)
        b = -0.5 * np.sum(((x - 0.75) / 0.05)**2)
        return np.logaddexp(a, b)

    def plateau(x):
        if x[0] < 0.5:
            return -np.inf
        return -0.5 * np.sum(((x - 0.7) / 0.1)**2)

    def wrap(x):
        d = np.minimum(np.abs(x[0] - 0.02), 1 - np.abs(x[0] - 0.02))
        return -0.5 * (d / 0.05)**2 - 0.5 * ((x[1] - 0.5) / 0.1)**2

    def gauss_blob(x):
        return gauss(x), float(x[0]), int(10 * x[1])

    def gauss_vecblob(x):
        return gauss(x), np.array([x[0], x[1], x[0] + x[1]])
    return dict(gauss=gauss, two_modes=two_modes, plateau=plateau, wrap=wrap,
                gauss_blob=gauss_blob, gauss_vecblob=gauss_vecblob)


def prior(x):
    return x


SCENARIOS = [
    dict(name='gauss', like='gauss', n_live=200, n_batch=50, n_networks=0),
    dict(name='gauss_net', like='gauss', n_live=200, n_batch=50, n_networks=1),
    dict(name='two_modes', like='two_modes', n_live=300, n_batch=60,
         n_networks=0),
    dict(name='plateau', like='plateau', n_live=200, n_batch=40, n_networks=0),
    dict(name='wrap_periodic', like='wrap', n_live=200, n_batch=50,
         n_networks=0, periodic=[0]),
    dict(name='blob', like='gauss_blob', n_live=200, n_batch=50, n_networks=0),
    dict(name='vecblob', like='gauss_vecblob', n_live=200, n_batch=30,
         n_networks=0),
    dict(name='batch7', like='gauss', n_live=150, n_batch=7, n_networks=0),
]


def make_sampler(sc, seed=0, filepath=None, resume=False, **over):
    from nautilus import Sampler
    L = likelihoods()
    kw = dict(n_dim=2, n_live=sc['n_live'], n_batch=sc['n_batch'],
              n_networks=sc['n_networks'], seed=seed, filepath=filepath,
              resume=resume)
    if sc.get('periodic') is not None:
        kw['periodic'] = np.array(sc['periodic'])
    kw.update(over)
    return Sampler(prior, L[sc['like']], **kw)


def run_with_hooks(sampler, on_boundary, **run_kw):
    """run() with a callback after every add_bound / add_samples (= the
    internal observation points: bound insertion and batch boundary)"""
    cls = type(sampler)
    orig_as, orig_ab = cls.add_samples, cls.add_bound

    def add_samples(self, *a, **k):
        r = orig_as(self, *a, **k)
        on_boundary(self, 'add_samples')
        return r

    def add_bound(self, *a, **k):
        r = orig_ab(self, *a, **k)
        on_boundary(self, 'add_bound')
        return r
    cls.add_samples, cls.add_bound = add_samples, add_bound
    try:
        return sampler.run(**run_kw)
    finally:
        cls.add_samples, cls.add_bound = orig_as, orig_ab


def setup_repo():
    repo = sys.argv[1] if len(sys.argv) > 1 else '/repo'
    sys.path.insert(0, repo)
    return repo
