#!/usr/bin/env python3
"""Regenerate MANIFEST.json from the table below (edit the table, not the json)."""
import json
import os

ROOT = os.path.dirname(os.path.dirname(os.path.abspath(__file__)))
props = [json.loads(l)['id'] for l in open(os.path.join(ROOT, 'properties.jsonl'))]

TRUST = ('Trusted: pyvc (self-built AST->VC generator, guarded by covers, obligation floors and the '
         'mutation self-test), the library models of numpy/scipy/h5py/Generator operations (assumed '
         'contracts, conformance-tested), reals for floats unless stated, mathematical integers, z3/cvc5. ')

CLAIMED = {
 'C01': dict(
   text='Deductive proof, for all inputs/histories: the representation invariant InvP (every stored row is in the unit cube, '
        'in the bound of its shell and in no later bound; transfer candidates consistent) is established by add_bound and preserved by '
        'sample_shell, add_samples, add_bound, the discard setter and every branch of the run() loop including empty-shell removal; '
        'every obligation generated from the real AST of /repo/nautilus/sampler.py is discharged by z3 (ground-instantiation fallback). Support units (shared with C07) show that the concrete bound '
        'classes implement the abstract Bound API these proofs are written against: sample() returns rows that contains() accepts and that lie in the unit cube (serial, pool, periodic), '
        'restructuring leaves no stale proposal, compute() establishes the class invariants, and a pool worker returns only its own draws.',
   note=TRUST + 'Assumed contracts: abstract Bound API (sample returns points inside the bound and cube; contains is a pure function of geometry; '
        'C07), evaluate_likelihood (C03), write*/accessors read-only (C11), resume restores fields (C05). Bounded stand-in (thorough): runtime monitor on 8 scenarios.',
   tech='contract-based deductive verification: AST symbolic execution + loop invariants + z3/cvc5 (self-built VC generator)', ref='7 C01'),
 'C02': dict(
   text='Deductive proof: update_shell_info establishes, for its shell and for every input, exactly the per-shell estimators of the stored log-likelihoods in the current view (size, '
        'bound volume x accepted fraction, mean likelihood, Kish size; -inf/nan conventions for empty shells) and touches no other entry; a ghost up-to-date bit per bound - cleared by '
        'every write to an input of those formulas (the shell\'s log_l, its proposal counter, the bound\'s sampling state, the view parameters) or to the statistic arrays, set only by '
        'update_shell_info - is invariantly true for every sampled shell after add_bound, add_samples, the discard setter and every branch of run(); never more samples than proposals in '
        'either view; the proposal count returned by sample_shell is exactly the number of rows drawn from the bound (ghost counter in the Bound API, also for draws rejected completely); log_z is the logsumexp over non-empty shells of (mean likelihood + volume); posterior() weights are shell volume / max(n,1) x likelihood; n_eff is 0 without informative shells and otherwise (sum W)^2 / sum (W^2 / n_eff_shell) over shells with '
        'n_eff_shell > 0, W = exp(mean likelihood + volume - max); eta is exp(2 lse(z) - 2 lse(z - log(n_eff_shell/n)/2)) over shells with samples.',
   note=TRUST + 'Splitting the sample-level Kish sums over shells (which turns the shell-level n_eff / eta formulas into the sample-level statement) is a mathematical lemma, not machine-checked; -inf/nan are '
        'distinguished constants with uninterpreted log/exp/logsumexp (term equalities). Soundness of the up-to-date bit rests on the mechanical store hooks of the executor.',
   tech='contract-based deductive verification with ghost dirty-bit state, z3', ref='7 C02'),
 'C03': dict(
   text='Deductive proof: (1) Sampler.evaluate_likelihood (whole body, scalar/vectorised/pool, array or dictionary prior, any batch size >= 1): returned log_l[j] and blob[j] are the '
        'likelihood and blob of points[j] in proposal order, blob array has one row per point (binary squeeze semantics incl. the single-row case), the caller\'s array is untouched even '
        'if the prior writes into its argument (the copy is what the prior receives), n_like grows by the batch size; (2) the alignment invariant (stored log_l/blob is that of the stored '
        'point of the same row, also for transfer candidates) is preserved by add_bound, add_samples and every branch of run(); (3) posterior(): the weighted arrays built from the shells '
        'are row-aligned triples and the final transform/normalisation keeps rows together.',
   note=TRUST + 'User functions are uninterpreted (T, L, Bl), row-wise when vectorised; the prior may clobber the array object it is given; pool.map ordered (C11). "Every evaluated point at '
        'most once" is proved only for the pool worker (a worker resets its copy before sampling and returns only its own draws: support unit shared with C07); that proposals of the '
        'continuous generator are distinct is an assumption, duplicates are also looked for by the bounded runtime check. posterior() is verified as two mechanically extracted blocks.',
   tech='contract-based deductive verification incl. user-function theory and representation invariant, z3', ref='7 C03'),
 'C05': dict(
   text='Deductive proof in four machine-checked pieces: (1) Sampler.write executed on an arbitrary sampler yields an explicit HDF5 tree holding every run-state field, all shells, '
        'the transfer arrays, every bound with its proposal state and the generator state; (2) write_shell_update(shell) is equivalent to a full write for every change that can happen '
        'between two writes - tree equality of update(write(s0), s1) and write(s1) where s1 differs from s0 by the modifies clauses of add_samples(shell), of the public discard setter and '
        'the loop counters; (3) the real resume block of __init__ executed on that tree restores every continuation-state field, every bound (same object order, class-dispatched reader, '
        'proposal state) and the generator state, handing the one shared generator to every bound; (4) call-order obligations on run(): every state-changing step is followed in the same '
        'iteration by the matching write, and no run state lives in locals; (5) file-in-sync invariant woven into the symbolic execution of the real run() with the C01 contracts: a ghost '
        'dirty bit per persistent field (set by every assignment and by the modifies clause of every callee, cleared by write, cleared by write_shell_update only for the set proved '
        'equivalent in (2) and only for the shell that was sampled) is clear for every field at every loop boundary and at return once a file exists, and a checkpoint written right '
        'before a batch is re-entrant (the bound-insertion guard is false in the written state), so the file on disk after k batches is the continuation state after k batches. The resume block also re-establishes blobs_dtype whenever blobs exist (add_bound allocates from it).',
   note=TRUST + 'h5py exact + closed world; bounds abstract with the round-trip axiom (C09: proved for every bound class, the emulator inside a NeuralBound assumed); int(str(x)) = x. The final '
        'step "equal continuation state => bit-identical continuation" is the determinism argument of C11 and is not machine-checked; constructor arguments are given again on resume. (5) assumes the file is in sync at entry of run(), n_update >= 1 and n_like_new_bound >= 1; list '
        'mutation through .pop() is not tracked (a full write follows it). Replay/bounded leg: stops through n_like_max at batch boundaries, copies of the checkpoint taken at the start '
        'of every batch (kill during a batch) resumed to completion, bound insertion driven by n_like_new_bound as well as n_update.',
   tech='contract-based deductive verification: write;update;write and write;resume compositions over the HDF5 map theory, z3', ref='7 C05'),
 'C06': dict(
   text='Deductive proof over a ghost file system on the real bodies of Sampler.write and Sampler.write_shell_update (the only two functions that open a file for writing; resume opens '
        'only the checkpoint path read-only - syntactic obligations): after EVERY file-system event (open for writing, copy start/end, close, rename, unlink) - and hence at every '
        'instant, because a non-atomic primitive turns its target into the torn state as its first effect - the checkpoint path holds either the complete state it held at entry or the '
        'complete new state, and is never absent once it existed; on normal exit the new state is committed and no file is left open. Package-wide syntactic obligation: no function other than '
        'the two writers renames, removes, copies, creates or opens a file for writing (so resuming never "repairs" the checkpoint from a leftover temporary file).',
   note=TRUST + 'Assumed contracts of the file system: os.replace (POSIX rename) and unlink are atomic, h5py touches only the file it opened, close() completes the file; process kill, not '
        'power loss (no fsync reasoning). Bounded leg: a child process is killed before every k-th source line of both writers after a first checkpoint exists; the checkpoint must exist, '
        'load, be internally consistent and continue.',
   tech='contract-based deductive verification with ghost file-system state (crash invariant at every event)', ref='7 C06'),
 'C07': dict(
   text='Deductive proof that the concrete classes implement the abstract bound API the Sampler proofs rely on: UnitCube (coordinates): contains is membership in [0,1)^d and every '
        'sample is contained; Ellipsoid (abstract vector algebra): contains is the open unit ball in the Cholesky frame, every sample is contained (radius u^(1/d) < 1 times a unit '
        'vector), compute() encloses every construction point when enlarge > 1, and the rescaling block of the MVEE routine yields form <= 1 with a coherently scaled inverse; Union '
        '(members abstract): contains is any-member AND cube, every sample is contained and inside the cube when restricted to it (cache + loop invariant); NeuralBound: contains implies '
        'the outer ellipsoid; NautilusBound: contains is outer union AND some neural bound (in the shifted frame), serial and pool sampling return exactly n rows that contains() accepts '
        'and that lie in the unit cube (uses the shift inverse law of C16); UnitCubeEllipsoidMixture (column algebra: cube part / ellipsoid part of a point, all three shapes): contains is '
        'the conjunction of the two parts and every sample is contained; Union.split / Union.trim (contracts shared with C13) end with an empty proposal cache and a partition of the '
        'construction points, so no stale proposal survives a restructuring; Union.compute and NautilusBound.compute establish the class invariants the sampling proofs assume: the outer union '
        'is built restricted to the unit cube (the default of Union.compute is read from the source), at least one neural bound (one per ellipsoid), a periodic shift exactly when periodic '
        'parameters are declared, an empty cache with zero counters, and every component holds the one generator handed in; NautilusBound.reset empties the cache and zeroes the counters of both '
        'levels, and _reset_and_sample (what a pool worker runs on its pickled copy) resets before it samples.',
   note=TRUST + 'Linear-algebra laws (inverse, Cholesky, quadratic-form scaling, sqrt) and the laws of complementary column sets are axioms; a Gaussian vector is non-zero; pickled worker copies '
        'keep the geometry; emulator row-wise. UnitCubeEllipsoidMixture.compute (dimension-selection loops) and "construction points stay contained after any sequence of splits" on real '
        'objects have no proof here: bounded runtime check (check_c07.py).',
   tech='contract-based deductive verification over abstract membership predicates and a vector algebra, z3 (NRA)', ref='7 C07'),
 'C08': dict(
   text='Deductive proof of REFINEMENT, not of the distributional statement itself (contracts have no probabilistic semantics): for all inputs the real code is the reference algorithm '
        'whose uniformity and volume calibration are textbook facts. Ellipsoid.sample returns exactly B(z/|z| u^(1/d)) + c with z the normal draw and u the uniform draw (E1); '
        'Ellipsoid.log_v = log|det B| + (d/2) log pi - lnGamma(d/2+1) with the same B whose inverse defines contains() (E2, with C07 frame_is_consistent); every round of Union.sample '
        'makes one multinomial(1000, exp(log_v_all - logsumexp(log_v_all))) draw (U1), accepts a candidate iff its uniform draw exceeds 1 - 1/multiplicity (U3), adds 1000 to n_sample and '
        '1000 - #accepted to n_reject so that cube and overlap rejections are both counted (U4), appends accepted rows in order and returns the oldest cached rows (U5); Union.log_v = '
        'logsumexp(log_v_all) + log(1 - n_reject/n_sample) after a lazy first draw that leaves existing counters untouched (U6); NautilusBound: serial rounds add 1000 / 1000 - #accepted '
        '(N1), the pool path adds every worker\'s counters of both levels and all its rows (N2), log_v = outer log_v + log(1 - n_reject/n_sample) (N3); UnitCubeEllipsoidMixture: the sample is '
        'the join of a cube-part draw and an ellipsoid-part draw (M1) and log_v is the ellipsoid volume, the cube part having volume one (M2). Checkpoint round trip of the counters and '
        'geometry is C09. Union.compute / split / trim (contracts shared with C13) end with an empty cache and zero counters, so the accepted fraction in log_v never stems from an earlier set of members.',
   note=TRUST + 'NOT machine-checked: the probabilistic lemma (volume-proportional component choice + acceptance 1/multiplicity => uniform on the union; accepted fraction is an unbiased estimate of the '
        'volume ratio; z/|z| u^(1/d) uniform in the ball), independence and distribution of numpy Generator draws, log 2 + lnGamma(3/2) = (1/2) log pi. The worker side of the pool (_reset_and_sample) is '
        'not under contract here. Bounded stand-in (never counted as proved; runs in both tiers as replay leg and as the bounded leg): fixed-seed two-sample '
        'chi-square occupancy test of sample() against brute-force rejection sampling through contains(), and exp(log_v) against a Monte-Carlo volume, for Ellipsoid, Union over both member '
        'classes after maximal splitting, NautilusBound with a network, periodic or not; alarm only at p < 1e-9.',
   tech='contract-based deductive verification (refinement of a reference algorithm with ghost capture of generator draws) + bounded statistical stand-in', ref='7 C08'),
 'C09': dict(
   text='Deductive proof by symbolic execution of the real write followed by the real read on an HDF5 group model, per class: UnitCube, Ellipsoid, PhaseShift, '
        'UnitCubeEllipsoidMixture (all three cube/ellipsoid shapes) and Union (restricted to the unit cube or not; any number of members, any split/trim/sampling state, members abstract): '
        'read terminates normally, every field the bound\'s behaviour depends on is defined and equal to the original, every generator reference is the one handed to read; no HDF5 name is '
        'created twice or read without having been written; Union.update followed by a read is equivalent to a full write whenever the union changed only through sample() '
        '(tree equality of update(write(u0),u1) and write(u1)). NeuralBound (with and without emulator) and NautilusBound (periodic or not, any number of neural bounds): the real '
        'write/read bodies store and restore every field, hand every component to the reader of the class that wrote it with the right generator, and the while loop scanning the '
        '`neural_bound_{i}` family restores the list in order and completely; NautilusBound.update is equivalent to a full write whenever the bound changed only through sample().',
   note=TRUST + 'h5py modelled as a finite map with exact storage and closed world. Components are abstract with the round-trip axiom UNTREE(TREE(x)) = x: proved by their own units for '
        'Ellipsoid / mixture / Union / PhaseShift (inlined) / NeuralBound; ASSUMED for NeuralNetworkEmulator (write/read iterate sklearn internals, outside the subset): bounded runtime '
        'round-trip check (check_c09.py) and the suite\'s test_neural_io. `block` is not restored by Union.read (only split() reads it): recorded observation.',
   tech='contract-based deductive verification: symbolic execution of write;read composition over an HDF5 map theory, z3', ref='7 C09'),
 'C10': dict(
   text='Deductive proof on the real AST of Sampler.sample_shell / add_samples / run: every batch has exactly n_batch rows (loop exit + invariant), every row handed to '
        'evaluate_likelihood lies in the unit cube (call precondition discharged at the call site), the counter grows by exactly n_batch per loop iteration and each '
        'iteration starts only with n_like < n_like_max (loop step obligations), hence the total stays below n_like_max + n_batch and is unchanged when the limit was '
        'already reached; run() returns exactly the success predicate of its exit state; the fall-through branch without a batch is shown unreachable. Support (units shared with C07): '
        'UnitCube.sample and NautilusBound.sample (serial and pool, periodic or not) return rows inside the unit cube, NautilusBound.compute builds the outer union restricted to it, and '
        'evaluate_likelihood (unit shared with C03) adds exactly the number of rows of the batch to n_like in every evaluation mode - the value a vectorised prior returns (array or dictionary) '
        'is opaque to the code, in particular its len().',
   note=TRUST + 'Assumed contracts: evaluate_likelihood increments n_like by the number of points (body: C03); the Sampler proofs use the abstract Bound API, which the support units show the two '
        'concrete classes to implement. The counter across a resume is the persisted n_like (C05). '
        'time() is a fresh real per call. n_eff is modelled as a deterministic function of the three arrays it reads.',
   tech='contract-based deductive verification: loop invariants + per-iteration step contracts, z3', ref='7 C10'),
 'C11': dict(
   text='Deductive effect (frame) proof on the real bodies: n_eff, log_z, eta, f_live, log_v_live, evidence(), effective_sample_size(), asymptotic_sampling_efficiency() and the '
        'discard_exploration getter modify no field of the sampler, no bound sampling state and draw nothing from the generator (frame over all fields + ghost state; posterior(): C14, '
        'shell_association: C01); write() and write_shell_update() leave the sampler object untouched (they only talk to the file); NautilusPool.map returns the ordered-map primitive; '
        'syntactic obligations over the whole package AST: no global numpy.random, wall clock only in the run() timeout guard, estimators/generators explicitly seeded, every bound '
        'constructor receives the shared generator, `if verbose:` blocks only print; evaluate_likelihood (scalar, vectorised, pooled - every combination is one path of the same body) returns '
        'the user likelihood / blob of every row of the batch and leaves the caller\'s batch untouched whatever the user transform does to the array it is handed, so the mode is invisible; '
        'in the Sampler class the generator is referenced only by __init__, posterior, sample_shell, add_bound and (read-only) the two writers, and the likelihood pool only in __init__ and '
        'evaluate_likelihood while every `pool=` argument is the sampler pool - so neither an accessor nor the size of the likelihood pool can change the random stream; NautilusPool(n, likelihood) creates one new worker pool initialised with exactly that '
        'likelihood, a given pool object is used as it is, and nautilus/pool.py keeps no module-level state.',
   note=TRUST + 'h5py / pathlib objects are effect-free sinks (they hold no reference to the sampler); Pool.map / dask gather(map) ordered and BLAS/sklearn deterministic are assumed contracts '
        'of dependencies; print_status and shell_bound_occupation are outside the subset: bounded runtime interleaving check only. The composition to "bit-identical runs" is the '
        'determinism argument of DESIGN.md (not machine-checked).',
   tech='contract-based deductive verification of frame conditions + syntactic effect obligations', ref='7 C11'),
 'C12': dict(
   text='Deductive proof: explored is only ever set to True (loop step + post), in an explored pre-state one iteration of run() leaves the bound list identical, keeps every '
        'stored row as a prefix (append-only for points and log_l) and leaves the exploration snapshot arrays untouched; after the end of exploration every shell holds at least one '
        'sample (empty-shell removal loop invariant); the discard setter modifies only the flag and the four statistic arrays and re-establishes shell_n == size of the view for every shell.',
   note=TRUST + '"Toggle restores bit-for-bit" rests on update_shell_info being a function of its inputs (its postcondition S1 determines the four statistics) plus the setter frame; the '
        'composition step is argued in DESIGN.md, not machine-checked. Runtime monitor (replay leg) checks the toggle concretely.',
   tech='contract-based deductive verification: frame conditions + loop step contracts, z3', ref='7 C12'),
 'C13': dict(
   text='Deductive proof on the real AST of Union.compute / split / trim / sample (reset inlined): the record invariant InvU (one member, point set, volume and may-split flag per '
        'ellipsoid; volumes current; every member has more points than dimensions; an unblocked member has at least 2*n_points_min points) is preserved on every exit of every '
        'operation and established by compute (one member holding all construction points, empty cache, zero counters, unit-cube restriction exactly when requested, the given generator), hence it holds after any operation order of any length; a successful split yields two clusters of at least n_points_min points that partition the points of the split '
        'member and whose summed volume does not exceed it, for an ARBITRARY responsibility matrix (the GMM is havoc); a refused operation leaves members, points and volumes '
        'unchanged; no numpy operation can raise (length/shape/index obligations).',
   note=TRUST + 'Member bounds are abstract (compute needs more rows than dimensions, a precondition of Union.compute here; C07). Counting facts of a[idx]=v, bincount and argsort are library axioms. Floats are reals: "no operation raises" is proved over the reals; a bounded leg '
        '(both tiers) runs operation words on unions whose log-volumes lie far outside the range of exp(). Bounded leg (thorough): operation words up to length 3/4/5 on nine point sets '
        'against the real Union.',
   tech='contract-based deductive verification: representation invariant over all exits, z3', ref='7 C13'),
 'C14': dict(
   text='Deductive proof on the resampling block of Sampler.posterior (all statements from `if equal_weight:` to the return, extracted mechanically from the real AST on every run), '
        'for ARBITRARY weighted arrays of one common length: every multiplicity is floor(r) or floor(r)+1 with r = exp(log_w - max) * boost; no multiplicity exceeds 1 when boost <= 1; '
        'output rows are np.repeat images of the weighted rows under ONE monotone index map (order kept; point, log-likelihood and blob of a row stay together); all returned weights '
        'equal -logsumexp(zeros(N)); no field of the sampler changes (frame), only the generator advances.',
   note=TRUST + 'The first part of posterior() (building the weighted arrays) is outside this block (C02/C03) and only assumed to deliver four arrays of equal length >= 1. Expectation '
        'E[count]=r is the one-line consequence of the proved refinement with u uniform on [0,1): stated, not machine-checked. exp axioms: 0 < exp(x) <= 1 for x <= 0.',
   tech='contract-based deductive verification of a mechanically extracted block, z3', ref='7 C14'),
 'C15': dict(
   text='Deductive proof on the real AST of Prior.add_parameter / dimensionality / unit_to_physical: a normal exit appends exactly one (key, dist) record as declared and keeps the '
        'prior invariant (equal lengths, distinct string keys, every link points to an earlier non-link key); an exceptional exit is ValueError/TypeError and leaves keys and dists '
        'unchanged; dimensionality is the number of free parameters; column i of unit_to_physical is the inverse CDF of the i-th free parameter applied to column i (loop invariant), '
        'shape preserved, input untouched.',
   note=TRUST + 'Python values are an uninterpreted sort with class predicates (str/tuple/number/has-isf disjoint). physical_to_dictionary has no proof (dict theory not modelled): '
        'bounded enumeration of all declaration sequences up to length 2 (quick) / 3 (thorough) on the real Prior.',
   tech='contract-based deductive verification + bounded enumeration for the dictionary step', ref='7 C15'),
 'C16': dict(
   text='Deductive proof: PhaseShift.transform equals the spec shift on periodic columns and is the identity elsewhere (loop invariant, frame, '
        'input array untouched) over the reals; range closure [0,1) proved in IEEE binary64 (z3 FP theory, numpy % semantics) for both directions; '
        'inverse law and range proved as lemmas over the spec function (reals). PhaseShift.compute (reals): for every periodic parameter i the centre is computed from column periodic[i] '
        'of the construction points, its sorted values and their cyclic gaps, and after the forward shift every construction coordinate keeps a distance of half the largest cyclic gap '
        'from 0 and 1, i.e. the largest empty gap lies across the boundary (loop invariant with a ghost gap witness per parameter, step lemmas).',
   note=TRUST + 'Inverse law and gap placement only over reals (binary64 form not proved: holds up to rounding, checked at run time). `periodic` distinct valid indices is a precondition; '
        'at least one construction point. np.sort/np.diff/np.argmax/np.amax are library models. Replay leg: adversarial search on the real class (non-prefix periodic sets, values adjacent to 0, 0.5, 1).',
   tech='contract-based deductive verification incl. binary64 bit-precise obligations (z3 FP via ground instantiation)', ref='7 C16'),
}

NA = {
 'C04': 'statistical statement over ensembles of seeds; no requires/ensures contract can express a distribution of outputs (DESIGN.md section 9)',
}

checks = []
for p in props:
    if p in CLAIMED:
        c = CLAIMED[p]
        checks.append(dict(
            property_id=p,
            quick_cmd='python3-vt check.py {} --tier quick'.format(p),
            thorough_cmd='python3-vt check.py {} --tier thorough'.format(p),
            evidence_file='evidence/{}.json'.format(p),
            replay_cmd_template='python3-vt check.py --replay {path}',
            engine='pyvc',
            level_claimed=dict(category='proof', text=c['text'], design_ref='DESIGN.md section ' + c['ref']),
            level_note=c['note'], technique=c['tech']))
na = []
for p in props:
    if p not in CLAIMED:
        na.append(dict(property_id=p, reason=NA.get(p, 'check not built yet (implementation in progress; see DESIGN.md section 7 for the plan)')))
m = dict(
    version=1,
    setup_cmd="python3-vt -c 'import z3' && /venv/bin/python -c 'import numpy, h5py, nautilus'",
    hooks=dict(guard='NAUTILUS_VERIF',
               enable='no hooks: contracts are sidecar files under /verif/contracts; /repo is parsed on every run, never edited by the machinery',
               baseline_off_cmd='cd /repo && /venv/bin/python -m pytest -ra -q -p no:cacheprovider --timeout=900 --continue-on-collection-errors',
               source_commits=[], add_only=True),
    engines=[dict(name='pyvc', path='pyvc/', serves_properties=sorted(CLAIMED),
                  kind_free_text='self-built verification-condition generator over the real Python AST of /repo (symbolic execution, '
                                 'modular contracts, loop invariants), discharged by z3 5.1 / cvc5 1.0 / ground instantiation')],
    checks=checks, not_applicable=na,
    notes='exit 0 all obligations discharged; exit 1 VIOLATION line(s); exit 3 checker error (never a verdict)')
json.dump(m, open(os.path.join(ROOT, 'MANIFEST.json'), 'w'), indent=1)
print('claimed', sorted(CLAIMED), 'n/a', [x['property_id'] for x in na])
