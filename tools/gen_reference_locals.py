#!/usr/bin/env python3
"""Record, for every function of the package at the CURRENT /repo commit, the
order in which its locals are first bound. Contracts name locals of the code
they were written against; a later consistent renaming of locals is mapped
back through this file (pyvc/frontend.py: Frontend.local_aliases). Re-run only
when contracts are revised against a new source."""
import json
import os
import sys
ROOT = os.path.dirname(os.path.dirname(os.path.abspath(__file__)))
sys.path.insert(0, ROOT)
from pyvc.frontend import Frontend, binding_order  # noqa: E402
fe = Frontend('/repo')
out = {q: binding_order(fs.node) for q, fs in sorted(fe.functions.items())}
json.dump(out, open(os.path.join(ROOT, 'reference', 'locals.json'), 'w'),
          indent=0, sort_keys=True)
print(len(out), 'functions')
