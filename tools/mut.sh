#!/bin/bash
# usage: tools/mut.sh <file rel to repo> <python-regex-old> <new> -- <command...>
# Runs <command> with NAUTILUS_REPO pointing at a scratch copy of /repo with the edit applied.
set -e
F="$1"; OLD="$2"; NEW="$3"; shift 4
D=$(mktemp -d /tmp/mut.XXXXXX)
mkdir -p $D/nautilus && cp -r /repo/nautilus/. $D/nautilus/
python3 - "$D/$F" "$OLD" "$NEW" <<'PY'
import sys,re
p,old,new=sys.argv[1:4]
s=open(p).read()
s2,n=re.subn(old,new,s,count=1,flags=re.S)
if n==0: print("MUTATION DID NOT APPLY"); sys.exit(2)
open(p,'w').write(s2)
PY
NAUTILUS_REPO=$D "$@" || true
rm -rf $D
