#!/bin/bash
# Re-run every claimed check on the unchanged tree and validate its evidence.
cd /verif
for P in $(python3 -c "import json;print(' '.join(c['property_id'] for c in json.load(open('MANIFEST.json'))['checks']))"); do
  if [ -n "$1" ] && [[ " $@ " != *" $P "* ]]; then continue; fi
  S=$(date +%s); python3-vt check.py $P --tier quick > /tmp/refresh_$P.log 2>&1; RC=$?; E=$(date +%s)
  V=$(python3-vt -c "
import json,jsonschema
e=json.load(open('evidence/$P.json'));jsonschema.validate(e,json.load(open('/root/.vp/EVIDENCE.schema.json')))
c=e['coverage'];print(c['obligations'],c['discharged'],'ok' if c['obligations']==c['discharged'] else 'MISMATCH')" 2>&1 | tail -1)
  echo "$P rc=$RC $((E-S))s evidence: $V $(grep -c VIOLATION /tmp/refresh_$P.log) violations $(grep -c KNOWN-FINDING /tmp/refresh_$P.log) known"
done
