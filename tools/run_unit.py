#!/usr/bin/env python3
"""Developer helper: build one unit of a property and discharge it, printing
undischarged and slow obligations.  usage: run_unit.py PROP UNIT [-v]"""
import sys, time, importlib, os
sys.path.insert(0, os.path.dirname(os.path.dirname(os.path.abspath(__file__))))
from pyvc.core import Ctx
from pyvc.frontend import Frontend
from pyvc import discharge
prop, unit = sys.argv[1], sys.argv[2]
m = importlib.import_module('contracts.' + prop)
cx = Ctx(prop); fe = Frontend(); info = dict(functions=[])
t0 = time.time()
m.build(cx, fe, 'quick', info, only=(None if unit == 'ALL' else unit))
print('built', len(cx.obligations), 'obligations in', round(time.time() - t0, 1))
to = int(os.environ.get('TO', getattr(m, 'Z3_TIMEOUT_MS', 20000)))
res = discharge.discharge_all(cx.obligations, z3_timeout_ms=to)
meta = {o.name: o.meta for o in cx.obligations}
for r in res:
    t = sum(b['time_s'] for b in r['backends'])
    if r['verdict'] != 'discharged' or t > 5 or '-v' in sys.argv:
        print(r['verdict'], r['name'], [(b['solver'], b['result'], b['time_s']) for b in r['backends']], meta[r['name']].get('reason', ''))
print('discharged', sum(r['verdict'] == 'discharged' for r in res), '/', len(res), 'time', round(time.time() - t0, 1))
ex = getattr(m, '_EX', {}).get('ex')
if ex: print('branches', len(ex.branch_cov), '/', len(ex.branch_all), sorted(ex.branch_all - ex.branch_cov)[:6])
