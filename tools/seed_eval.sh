#!/bin/bash
# usage: tools/seed_eval.sh <out_dir> <k> <seed_id> <prop> [more props to check...]
# Confirms a seeded change (demo passes on /repo, fails with patch), runs the given checks
# against the patched tree, and stores everything under /verif/seeded/<seed_id>/.
OUT="$1"; K="$2"; SID="$3"; shift 3
PROPS="$@"
WT=$(mktemp -d /tmp/sv.XXXXXX); rmdir $WT
git -C /repo worktree add -q --detach $WT HEAD || exit 2
cleanup() { git -C /repo worktree remove --force $WT 2>/dev/null; rm -rf $WT; }
trap cleanup EXIT
if ! git -C $WT apply $OUT/patch$K.diff 2>/tmp/seed_apply_err; then
  # written against an earlier commit: retry with context fuzz
  if ! ( cd $WT && patch -p1 -s --no-backup-if-mismatch < $OUT/patch$K.diff ) 2>>/tmp/seed_apply_err; then
    echo "PATCH-DOES-NOT-APPLY $(head -2 /tmp/seed_apply_err)"; exit 3
  fi
fi
mkdir -p /verif/seeded/$SID
# store the change as a diff against the current HEAD of /repo
git -C $WT diff > /verif/seeded/$SID/patch.diff
cp $OUT/demo$K.py /verif/seeded/$SID/demo.py
( cd /tmp && PYTHONPATH=/repo timeout 600 /venv/bin/python $OUT/demo$K.py > /tmp/seed_demo_clean.log 2>&1 ); RC_CLEAN=$?
( cd /tmp && PYTHONPATH=$WT timeout 600 /venv/bin/python $OUT/demo$K.py > /tmp/seed_demo_mut.log 2>&1 ); RC_MUT=$?
echo "demo: clean rc=$RC_CLEAN patched rc=$RC_MUT"
RES=""
for P in $PROPS; do
  ( cd /verif && NAUTILUS_REPO=$WT timeout 1800 python3-vt check.py $P > /tmp/seed_check_$P.log 2>&1 ); RC=$?
  NV=$(grep -c '^VIOLATION' /tmp/seed_check_$P.log)
  NF=$(grep '^VIOLATION' /tmp/seed_check_$P.log | grep -vc 'no-failing-input-found')
  FIRST=$(grep '^VIOLATION' /tmp/seed_check_$P.log | head -2 | sed 's/.*replays\///' | tr '\n' ';')
  ERR=$(grep -c '^CHECKER-ERROR' /tmp/seed_check_$P.log)
  echo "check $P: rc=$RC violations=$NV with_input=$NF checker_errors=$ERR  $FIRST"
  RES="$RES{\"check\":\"$P\",\"rc\":$RC,\"violations\":$NV,\"with_failing_input\":$NF,\"first\":\"$FIRST\"},"
done
python3 - "$OUT" "$K" "$SID" "$RC_CLEAN" "$RC_MUT" "[${RES%,}]" <<'PY'
import json,sys,os
out,k,sid,rc_clean,rc_mut,res=sys.argv[1:7]
notes={}
try: notes=json.load(open(os.path.join(out,'notes%s.json'%k)))
except Exception as e: notes={'error':str(e)}
meta=dict(seed_id=sid, property=notes.get('property'), summary=notes.get('summary'), needs=notes.get('needs'),
          files=notes.get('files'), tests_run_by_author=notes.get('tests_run'),
          confirmed=dict(demo_clean_rc=int(rc_clean), demo_patched_rc=int(rc_mut),
                         how='demo.py run with PYTHONPATH=/repo (expect 0) and PYTHONPATH=<scratch worktree with patch> (expect 1)'),
          checks=json.loads(res))
json.dump(meta,open('/verif/seeded/%s/meta.json'%sid,'w'),indent=1)
PY
