#!/usr/bin/env python3
"""Print the markdown table of seeded changes from /verif/seeded/*/meta.json."""
import glob
import json
import os
ROOT = os.path.dirname(os.path.dirname(os.path.abspath(__file__)))
rows = []
for f in sorted(glob.glob(os.path.join(ROOT, 'seeded', 'C*', 'meta.json'))):
    d = json.load(open(f))
    sid = d['seed_id']
    summ = (d.get('summary') or '').split('. ')[0].replace('|', '/')
    if len(summ) > 230:
        summ = summ[:227] + '...'
    conf = d.get('confirmed', {})
    ok = conf.get('demo_clean_rc') == 0 and conf.get('demo_patched_rc') == 1
    res = []
    for c in d.get('checks', []):
        if c['violations'] == 0:
            res.append('{}: **missed**'.format(c['check']))
        else:
            first = (c.get('first') or '').split(';')[0]
            first = first.replace('no-failing-input-found', '').strip()
            first = first.split('/', 1)[-1].replace('.json', '')
            first = first.replace(c['check'] + '_', '', 1)
            kind = 'input' if c['with_failing_input'] else 'nfi'
            res.append('{}: {} ({}) `{}`'.format(
                c['check'], c['violations'], kind, first[:70]))
    rows.append('| {} | {} | {} | {} |'.format(
        sid, summ, 'yes' if ok else 'NO', '<br>'.join(res)))
print('| seed | change (first sentence of the author\'s summary) | demo confirmed | checks run against it: violations (input / nfi) and first failing obligation |')
print('|---|---|---|---|')
print('\n'.join(rows))
